//! running the real library on documents

use crate::events::configure;
use crate::xmlser::ReaderCfg;
use quick_xml::reader::Reader;
use serde_json::{json, Value};
use std::io::BufRead;
use xml_schema_generator::verif::{self, Step, View};
use xml_schema_generator::{extend_struct, into_struct, Element, ParserError};

#[derive(Clone, Debug)]
pub enum Outcome {
    Ok(View),
    Err { kind: &'static str, position: u64, display: String, debug: String },
    Panic,
}

impl Outcome {
    pub fn st(&self) -> &'static str {
        match self {
            Outcome::Ok(_) => "ok",
            Outcome::Err { .. } => "err",
            Outcome::Panic => "panic",
        }
    }
    pub fn to_json(&self) -> Value {
        match self {
            Outcome::Ok(v) => json!({"st": "ok", "tree": crate::util::view_json(v)}),
            Outcome::Err { kind, position, display, debug } => {
                json!({"st": "err", "kind": kind, "position": position, "display": display, "debug": debug})
            }
            Outcome::Panic => json!({"st": "panic"}),
        }
    }
}

pub fn classify(e: &ParserError) -> Outcome {
    let (kind, position) = match e {
        ParserError::QuickXmlError(p, _) => ("QuickXml", *p),
        ParserError::FromUtf8Error(_) => ("Utf8", 0),
        ParserError::AttrError(_) => ("Attr", 0),
        ParserError::ParsingError(_) => ("Parsing", 0),
    };
    let debug = match e {
        ParserError::QuickXmlError(_, inner) => format!("{:?}", inner),
        other => format!("{:?}", other),
    };
    Outcome::Err { kind, position, display: format!("{}", e), debug }
}

/// a BufRead that hands out at most `chunk` bytes per fill_buf (chunk = 0: everything)
pub struct Chunked<'a> {
    data: &'a [u8],
    pos: usize,
    chunk: usize,
    /// an I/O error of this kind is reported once, when the read position has reached this offset (the data before
    /// it is delivered first, the data behind it afterwards - what a pipe or socket does)
    fail: Option<(usize, std::io::ErrorKind)>,
}

impl<'a> Chunked<'a> {
    pub fn new(data: &'a [u8], chunk: usize) -> Self {
        Chunked { data, pos: 0, chunk, fail: None }
    }
    pub fn failing(data: &'a [u8], chunk: usize, at: usize, kind: std::io::ErrorKind) -> Self {
        Chunked { data, pos: 0, chunk, fail: Some((at.min(data.len()), kind)) }
    }
}

/// the I/O error kinds a fault is drawn from (Interrupted is retried by the reader itself and must not be an error)
pub const IO_KINDS: &[std::io::ErrorKind] = &[std::io::ErrorKind::WouldBlock, std::io::ErrorKind::Other, std::io::ErrorKind::BrokenPipe,
    std::io::ErrorKind::UnexpectedEof, std::io::ErrorKind::TimedOut, std::io::ErrorKind::Interrupted];

impl std::io::Read for Chunked<'_> {
    fn read(&mut self, out: &mut [u8]) -> std::io::Result<usize> {
        let avail = self.fill_buf()?;
        let n = avail.len().min(out.len());
        out[..n].copy_from_slice(&avail[..n]);
        self.consume(n);
        Ok(n)
    }
}

impl BufRead for Chunked<'_> {
    fn fill_buf(&mut self) -> std::io::Result<&[u8]> {
        let mut end = if self.chunk == 0 { self.data.len() } else { (self.pos + self.chunk).min(self.data.len()) };
        if let Some((at, kind)) = self.fail {
            if self.pos >= at {
                self.fail = None;
                return Err(std::io::Error::new(kind, "injected"));
            }
            end = end.min(at);
        }
        Ok(&self.data[self.pos..end])
    }
    fn consume(&mut self, n: usize) {
        self.pos = (self.pos + n).min(self.data.len());
    }
}

/// the tree carried from call to call
pub struct Session {
    pub tree: Option<Element<String>>,
}

impl Session {
    pub fn new() -> Self {
        Session { tree: None }
    }

    /// parse (no tree yet) or extend (tree present) with one document; on Err/Panic the tree is gone
    pub fn feed(&mut self, bytes: &[u8], cfg: &ReaderCfg, chunk: usize) -> Outcome {
        let prev = self.tree.take();
        crate::util::toggle_logging();
        if let Some(t) = prev.as_ref() {
            crate::util::probe_render(t);
        }
        let res = std::panic::catch_unwind(std::panic::AssertUnwindSafe(|| {
            let mut reader = Reader::from_reader(Chunked::new(bytes, chunk));
            configure(&mut reader, cfg);
            match prev {
                None => into_struct(&mut reader),
                Some(t) => extend_struct(&mut reader, t),
            }
        }));
        match res {
            Ok(Ok(t)) => {
                let v = t.verif_view();
                self.tree = Some(t);
                Outcome::Ok(v)
            }
            Ok(Err(e)) => classify(&e),
            Err(_) => Outcome::Panic,
        }
    }

    /// feed through a source that reports one I/O error at byte offset `at`
    pub fn feed_failing(&mut self, bytes: &[u8], cfg: &ReaderCfg, chunk: usize, at: usize, kind: std::io::ErrorKind) -> Outcome {
        let prev = self.tree.take();
        crate::util::toggle_logging();
        let res = std::panic::catch_unwind(std::panic::AssertUnwindSafe(|| {
            let mut reader = Reader::from_reader(Chunked::failing(bytes, chunk, at, kind));
            configure(&mut reader, cfg);
            match prev {
                None => into_struct(&mut reader),
                Some(t) => extend_struct(&mut reader, t),
            }
        }));
        match res {
            Ok(Ok(t)) => {
                let v = t.verif_view();
                self.tree = Some(t);
                Outcome::Ok(v)
            }
            Ok(Err(e)) => classify(&e),
            Err(_) => Outcome::Panic,
        }
    }

    /// like feed, with the parser hooks recording
    pub fn feed_recorded(&mut self, bytes: &[u8], cfg: &ReaderCfg, chunk: usize) -> (Outcome, Vec<Step>) {
        verif::start();
        let o = self.feed(bytes, cfg, chunk);
        (o, verif::take())
    }
}

pub fn hex(b: &[u8]) -> String {
    b.iter().map(|x| format!("{:02x}", x)).collect()
}

pub fn unhex(s: &str) -> Vec<u8> {
    (0..s.len() / 2).map(|i| u8::from_str_radix(&s[2 * i..2 * i + 2], 16).unwrap_or(0)).collect()
}

pub fn cfg_json(c: &ReaderCfg) -> Value {
    json!({"trim_text": c.trim_text, "expand_empty": c.expand_empty, "check_end_names": c.check_end_names,
           "allow_unmatched_ends": c.allow_unmatched_ends})
}

pub fn cfg_from(v: &Value) -> ReaderCfg {
    let mut c = ReaderCfg::default_cfg();
    if let Some(b) = v["trim_text"].as_bool() {
        c.trim_text = b;
    }
    if let Some(b) = v["expand_empty"].as_bool() {
        c.expand_empty = b;
    }
    if let Some(b) = v["check_end_names"].as_bool() {
        c.check_end_names = b;
    }
    if let Some(b) = v["allow_unmatched_ends"].as_bool() {
        c.allow_unmatched_ends = b;
    }
    c
}

/// documents of a case for a replay file: readable text plus exact bytes
pub fn docs_json(docs: &[(Vec<u8>, ReaderCfg)]) -> Value {
    Value::Array(
        docs.iter()
            .map(|(b, c)| json!({"text": String::from_utf8_lossy(b), "hex": hex(b), "cfg": cfg_json(c)}))
            .collect(),
    )
}
