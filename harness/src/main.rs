//! xsgv — the Rust side of the model-based verification of xml_schema_generator.
//! It links the *current working tree* of /repo (path dependency, feature xsg_verif) and either replays
//! behaviours enumerated by TLC against the real code (spec -> impl) or records traces of the real code
//! for validation against the TLA+ specification (impl -> spec).

mod api;
mod cli;
mod events;
mod gen;
mod hostile;
mod merge;
mod parse;
mod programs;
mod proj;
mod render;
mod rewrite;
mod run;
mod util;
mod xmlser;

fn main() {
    let argv: Vec<String> = std::env::args().collect();
    if argv.len() < 2 {
        eprintln!("usage: xsgv <sub-command> [--key value]...");
        std::process::exit(2);
    }
    let args = util::Args(argv[2..].to_vec());
    // a panic of the code under test is data; the default hook would only clutter stderr
    if std::env::var("XSGV_PANIC_TRACE").is_err() {
        std::panic::set_hook(Box::new(|_| {}));
    }
    match argv[1].as_str() {
        "merge-replay" => merge::replay(&args),
        "merge-record" => merge::record(&args),
        "parser-replay" => parse::replay(&args),
        "schema-record" => parse::record_schema(&args),
        "parser-record" => parse::record_parser(&args),
        "docs-trace" => parse::docs_trace(&args),
        "cases-docs" => parse::cases_docs(&args),
        "cli-replay" => cli::replay(&args),
        "programs-gen" => programs::gen(&args),
        "hostile" => hostile::run(&args),
        "hostile-replay" => hostile::replay(&args),
        "api-replay" => api::replay(&args),
        "api-record" => api::record(&args),
        "c11-rewrite" => rewrite::c11(&args),
        "c06-algebra" => rewrite::c06(&args),
        "c05-repeat" => rewrite::c05(&args),
        "pair-compare" => rewrite::pair_compare(&args),
        other => {
            eprintln!("unknown sub-command {}", other);
            std::process::exit(2);
        }
    }
}
