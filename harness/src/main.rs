//! xsgv — the Rust side of the model-based verification of xml_schema_generator.
//! It links the *current working tree* of /repo (path dependency, feature xsg_verif) and either replays
//! behaviours enumerated by TLC against the real code (spec -> impl) or records traces of the real code
//! for validation against the TLA+ specification (impl -> spec).

mod api;
mod cli;
mod events;
mod gen;
mod hostile;
mod merge;
mod parse;
mod programs;
mod proj;
mod render;
mod rewrite;
mod run;
mod util;
mod xmlser;

fn main() {
    util::install_logger();
    let argv: Vec<String> = std::env::args().collect();
    if argv.len() < 2 {
        eprintln!("usage: xsgv <sub-command> [--key value]...");
        std::process::exit(2);
    }
    let args = util::Args(argv[2..].to_vec());
    // a panic of the code under test is data; the default hook would only clutter stderr
    if std::env::var("XSGV_PANIC_TRACE").is_err() {
        std::panic::set_hook(Box::new(|_| {}));
    }
    match argv[1].as_str() {
        "chars-check" => {
            // the generated character table of the specification against the real char functions of Rust
            let table: serde_json::Value = serde_json::from_str(&std::fs::read_to_string(args.req("table")).expect("table")).expect("json");
            let mut bad = Vec::new();
            for row in table.as_array().unwrap() {
                let c = row["c"].as_str().unwrap().chars().next().unwrap();
                let up: String = c.to_uppercase().collect();
                let lo: String = c.to_lowercase().collect();
                if row["alnum"] != c.is_alphanumeric() || row["upper"] != c.is_uppercase() || row["up"] != up || row["lo"] != lo
                    || row["code"] != (c as u32) {
                    bad.push(serde_json::json!({"c": c.to_string(), "rust": {"alnum": c.is_alphanumeric(), "upper": c.is_uppercase(), "up": up, "lo": lo}, "table": row}));
                }
            }
            println!("{}", serde_json::json!({"kind": "chars", "rows": table.as_array().unwrap().len(), "bad": bad}));
        }
        "merge-replay" => merge::replay(&args),
        "merge-record" => merge::record(&args),
        "parser-replay" => parse::replay(&args),
        "schema-record" => parse::record_schema(&args),
        "parser-record" => parse::record_parser(&args),
        "docs-trace" => parse::docs_trace(&args),
        "cases-docs" => parse::cases_docs(&args),
        "cli-replay" => cli::replay(&args),
        "programs-gen" => programs::gen(&args),
        "hostile" => hostile::run(&args),
        "hostile-replay" => hostile::replay(&args),
        "api-replay" => api::replay(&args),
        "api-record" => api::record(&args),
        "c11-rewrite" => rewrite::c11(&args),
        "c06-algebra" => rewrite::c06(&args),
        "c05-repeat" => rewrite::c05(&args),
        "pair-compare" => rewrite::pair_compare(&args),
        other => {
            eprintln!("unknown sub-command {}", other);
            std::process::exit(2);
        }
    }
}
