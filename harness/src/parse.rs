//! parser cases: spec -> impl replay of the histories enumerated by MC_Parser

use crate::events::observe;
use crate::proj::{admits, dom, prefix_clash, proj, ty_of, unordered, Node};
use crate::run::*;
use crate::util::*;
use crate::xmlser::{serialize, ReaderCfg};
use serde_json::{json, Value};

/// event records as TLC prints them and as the observer produces them, made comparable
fn norm_events(evs: &[Value]) -> Vec<Value> {
    evs.iter()
        .map(|e| {
            // a faulty event ends the call; what was read of it before the fault is immaterial
            if e["fault"] != "none" {
                return json!({"kind": e["kind"], "fault": e["fault"]});
            }
            json!({"kind": e["kind"], "fault": e["fault"], "name": crate::xmlser::name_str(&e["name"]),
                   "attrs": e["attrs"].as_array().map(|a| a.iter().map(|x| json!(crate::xmlser::name_str(x))).collect::<Vec<_>>()).unwrap_or_default()})
        })
        .collect()
}

pub fn replay(a: &Args) {
    let cases = read_lines(&a.req("cases"));
    let mut mismatches = Vec::new();
    let (mut ser_bad, mut ref_bad, mut drift, mut calls_run) = (0usize, 0usize, 0usize, 0usize);
    let mut drift_samples: Vec<Value> = Vec::new();
    let mut kinds: std::collections::BTreeMap<String, usize> = Default::default();
    // with --render-trace the final tree of every stride-th history is rendered and logged for RenderTrace, so that the
    // *rendering* of the enumerated histories (field order, wrappers, String typing) is judged too
    let mut renders = a.get("render-trace").map(|p| Out::create(&p));
    let rstride = a.num("render-stride", 1).max(1) as usize;
    for (ci, c) in cases.iter().enumerate() {
        let calls = c["calls"].as_array().expect("calls");
        let mut docs: Vec<(Vec<u8>, ReaderCfg)> = Vec::new();
        let mut roots: Vec<Node> = Vec::new();
        let mut ser_ok = true;
        let mut sess = Session::new();
        let mut last = Outcome::Panic;
        for call in calls {
            let evs = call["events"].as_array().expect("events");
            for e in evs {
                *kinds.entry(e["kind"].as_str().unwrap_or("?").to_string()).or_default() += 1;
            }
            // every fourth history is written with empty CDATA sections
            let d = crate::xmlser::serialize_salted(evs, ci, if ci % 4 == 3 { 5 } else { 0 });
            let obs = observe(&d.bytes, &d.cfg);
            if norm_events(&obs.events) != norm_events(evs) {
                ser_ok = false;
                if ser_bad < 3 {
                    eprintln!("serializer self-check failed: {} -> {:?}\nwanted {}", String::from_utf8_lossy(&d.bytes),
                        norm_events(&obs.events), json!(norm_events(evs)));
                }
            }
            last = sess.feed(&d.bytes, &d.cfg, 0);
            calls_run += 1;
            if last.st() == "ok" {
                roots.extend(dom(&obs.events, &obs.ws_text));
            }
            docs.push((d.bytes, d.cfg));
        }
        if !ser_ok {
            ser_bad += 1;
            continue;
        }
        if let (Some(t), Some(tree), true) = (renders.as_mut(), sess.tree.as_ref(), ci % rstride == 0 && c["indomain"] == true) {
            let opts = vec![xml_schema_generator::Options::quick_xml_de(), {
                let mut s2 = xml_schema_generator::Options::serde_xml_rs();
                s2.sort = xml_schema_generator::SortBy::XmlName;
                s2
            }];
            let texts: Vec<String> = docs.iter().map(|d| String::from_utf8_lossy(&d.0).into_owned()).collect();
            t.line(&crate::render::render_event(tree, &opts, json!({"docs": texts})));
        }
        let exp = &c["expect"];
        let default_cfg = docs.iter().all(|d| d.1 == ReaderCfg::default_cfg());
        let base = json!({"kind": "parser", "docs": docs_json(&docs), "expected": exp, "actual": last.to_json(), "ncalls": calls.len(),
                          "default_cfg": default_cfg});
        let mut report = |class: &str, detail: Value, mismatches: &mut Vec<Value>| {
            let mut m = base.clone();
            m["class"] = json!(class);
            m["detail"] = detail;
            mismatches.push(m);
        };
        if exp["st"] != last.st() {
            report("verdict", json!({"expected": exp["st"], "actual": last.st()}), &mut mismatches);
            continue;
        }
        match &last {
            Outcome::Err { kind, .. } => {
                if exp["kind"] != *kind {
                    report("error-kind", json!({"expected": exp["kind"], "actual": kind}), &mut mismatches);
                }
            }
            Outcome::Ok(v) => {
                let p = proj(v);
                if c["indomain"] == true && c["ty"].get("none").is_none() {
                    // the specification's reference against the independent Rust reference
                    let refs: Vec<&Node> = roots.iter().collect();
                    let t = ty_of(&refs);
                    if t != c["ty"] {
                        ref_bad += 1;
                        if ref_bad < 3 {
                            eprintln!("reference disagreement: TyOf {} vs domref {}", c["ty"], t);
                        }
                    }
                    if !refs.iter().all(|n| admits(&p, n)) {
                        report("unsound", json!({"rendered_schema": p, "determined_by_documents": c["ty"]}), &mut mismatches);
                        continue;
                    }
                    if unordered(&p) != unordered(&c["ty"]) {
                        report("schema", json!({"rendered_schema": p, "determined_by_documents": c["ty"]}), &mut mismatches);
                        continue;
                    }
                    if p != c["ty"] {
                        report("order", json!({"rendered_schema": p, "determined_by_documents": c["ty"]}), &mut mismatches);
                        continue;
                    }
                }
                if p != exp["proj"] {
                    report("schema-model", json!({"actual": p, "model": exp["proj"]}), &mut mismatches);
                    continue;
                }
                if view_json(v) != exp["tree"] {
                    drift += 1;
                    if drift_samples.len() < 3 {
                        drift_samples.push(json!({"docs": docs_json(&docs), "model": exp["tree"], "actual": view_json(v)}));
                    }
                }
            }
            Outcome::Panic => {}
        }
    }
    if let Some(t) = renders {
        t.finish();
    }
    finish_report("parser", cases.len(), &mismatches, a.get("mismatches"),
        json!({"serializer_failures": ser_bad, "reference_disagreements": ref_bad, "drift": drift,
               "drift_samples": drift_samples, "calls": calls_run, "event_kinds": kinds}));
}

/// impl -> spec, property level: random sessions (parse, extend, ...) logged as Call lines for SchemaTrace
pub fn record_schema(a: &Args) {
    use crate::gen::*;
    let mut r = Rng::new(a.num("seed", 1));
    let sessions = a.num("n", 200) as usize;
    let max_elems = a.num("elems", 30) as usize;
    let damage_pct = a.num("damage", 8) as usize;
    let boundary_only = a.num("boundary-only", 0) == 1;
    // --cfgs 1: a third of the documents are read with trim_text / expand_empty_elements switched on (the independent
    // reader pass uses the same configuration, so the expected schema is the one of the events that reader delivers)
    let cfgs = a.num("cfgs", 0) == 1;
    let mut o = Out::create(&a.req("out"));
    let mut renders = a.get("render-trace").map(|p| Out::create(&p));
    let mut calls = 0usize;
    let mut outcomes: std::collections::BTreeMap<String, usize> = Default::default();
    for s in 0..sessions {
        o.line(&json!({"ev": "Reset"}));
        let scaled = s % 6 == 5;
        // every eighth session is built around a boundary size (deep chains, wide elements, long names, long runs)
        // --scale 1: the first session is an element seen 10 050 times, before and after documents whose rows differ in
        // which children they have (a count threshold in the bookkeeping shows here)
        let scale_session = a.num("scale", 0) == 1 && s == 0;
        // the first sessions are built around the constants of the code under test: each as the document element and as a
        // nested element, with repeated, optional and text children (a special case written for a literal shows here)
        let lit_names: Vec<&String> = literals().iter().filter(|l| is_xml_name(l)).collect();
        let literal_session: Option<Vec<Vec<u8>>> = if !boundary_only && s < lit_names.len() {
            let l = lit_names[s];
            Some(vec![format!("<{0} a=\"v001\"><x>t002</x><x>t003</x><{0}><y/><y/></{0}></{0}>", l).into_bytes(),
                      format!("<{0}><x>t001</x><z><{0}><y/></{0}><{0} b=\"v002\"><y/><y/><w/></{0}></z></{0}>", l).into_bytes()])
        } else {
            None
        };
        // lossy twins: a name / key that is valid and contains U+FFFD, then the same element with the invalid bytes that
        // decode to it (any comparison made after a lossy decoding takes one for the other)
        let twin_session: Option<Vec<Vec<u8>>> = if !boundary_only && s >= lit_names.len() && s < lit_names.len() + 4 {
            let k = s - lit_names.len();
            let valid = ["<r><e k\u{FFFD}=\"1\"/><e k\u{FFFD}=\"2\"/></r>", "<r><n\u{FFFD}/><n\u{FFFD} p=\"1\"/></r>",
                         "<e k\u{FFFD}=\"1\"/>", "<r><e \u{FFFD}=\"1\"/></r>"][k].as_bytes().to_vec();
            let invalid: Vec<u8> = [&b"<r><e k\xFF=\"1\"/><e k\xFF=\"2\"/></r>"[..], b"<r><n\xFF/><n\xFF p=\"1\"/></r>",
                                    b"<e k\xFF=\"1\"/>", b"<r><e \xFF=\"1\"/></r>"][k].to_vec();
            let mut mixed = valid.clone();
            if let Some(pos) = mixed.windows(3).rposition(|w| w == "\u{FFFD}".as_bytes()) {
                mixed.splice(pos..pos + 3, [0xFFu8]);
            }
            Some(vec![valid, mixed, invalid])
        } else {
            None
        };
        let boundary: Option<Vec<Vec<u8>>> = if literal_session.is_some() {
            literal_session
        } else if twin_session.is_some() {
            twin_session
        } else if scale_session {
            let rows = |k: usize| -> String { (0..k).map(|_| "<row><id/><note/></row>").collect() };
            Some(vec!["<a><row><id/><note/></row><row><id/></row></a>".as_bytes().to_vec(),
                      format!("<a>{}</a>", rows(10_050)).into_bytes(),
                      "<a><row><id/><extra/></row></a>".as_bytes().to_vec()])
        } else if s % 8 == 7 || boundary_only {
            let b = if boundary_only { s } else { s / 8 };
            // (four chains per run are deeper than 1000 levels: 1001 or 1025)
            let n = if b % BOUNDARY_KINDS <= 1 && ((b / BOUNDARY_KINDS) == 2 || (b / BOUNDARY_KINDS) == 5) { [1025usize, 1001][(b / BOUNDARY_KINDS / 3) % 2] }
                    else { BOUNDARIES[(b / BOUNDARY_KINDS + b) % BOUNDARIES.len()] };
            Some(boundary_session(&mut r, b, n))
        } else {
            None
        };
        let mut g = if scaled { GenCfg::scaled(&mut r) } else if s % 3 == 0 { GenCfg::rich() } else { GenCfg::plain() };
        g.pretty = s % 5 == 1;
        if !scaled {
            g.max_depth = 2 + r.below(4);
            g.max_kids = 1 + r.below(5);
            // a small pool per session so that names repeat at different depths and documents overlap
            let k = 2 + r.below(4);
            let mut pool = g.names.clone();
            r.shuffle(&mut pool);
            pool.truncate(k);
            g.names = pool;
            // every other session over rich names has a constant of the code under test among its names
            let lits: Vec<&String> = literals().iter().filter(|l| is_xml_name(l)).collect();
            if s % 3 == 0 && !lits.is_empty() && r.chance(1, 2) {
                g.names.push((*r.pick(&lits)).clone());
            }
        }
        let root = r.pick(&g.names).clone();
        let ndocs = match &boundary { Some(b) => b.len(), None => 1 + r.below(4) };
        let mut sess = Session::new();
        let mut session_docs: Vec<String> = Vec::new();
        for di in 0..ndocs {
            let mut bytes = match (&boundary, r.below(20)) {
                (Some(b), _) => b[di].clone(),
                (None, 0) => elementless(&mut r),
                _ => {
                    let budget = if scaled { (3 * max_elems).max(g.max_kids + 10) } else { 1 + r.below(max_elems) };
                    document(&mut r, &g, &root, budget)
                }
            };
            if boundary.is_none() && r.chance(damage_pct, 100) {
                bytes = damage(&mut r, &bytes);
            }
            let mut cfg = ReaderCfg::default_cfg();
            if cfgs && r.chance(1, 3) {
                cfg.trim_text = r.chance(1, 2);
                cfg.expand_empty = r.chance(1, 2);
            }
            let op = if sess.tree.is_some() { "extend" } else { "parse" };
            // one document in sixteen comes through a source that reports an I/O error at a random offset (and would
            // deliver the rest afterwards); the independent pass reads through the same kind of source
            let iofault = if boundary.is_none() && !bytes.is_empty() && r.chance(1, 16) {
                Some((r.below(bytes.len() + 1), *r.pick(crate::run::IO_KINDS), [0usize, 1, 5, 64][r.below(4)]))
            } else {
                None
            };
            let (obs, out) = match iofault {
                Some((at, kind, chunk)) => (
                    crate::events::observe_reader(quick_xml::reader::Reader::from_reader(crate::run::Chunked::failing(&bytes, chunk, at, kind)), &cfg),
                    sess.feed_failing(&bytes, &cfg, chunk, at, kind),
                ),
                None => (observe(&bytes, &cfg), sess.feed(&bytes, &cfg, 0)),
            };
            *outcomes.entry(out.st().to_string()).or_default() += 1;
            let result = match &out {
                Outcome::Ok(v) => crate::proj::result_ok(v),
                Outcome::Err { kind, position, debug, .. } => json!({"st": "err", "kind": kind, "position": position, "debug": debug}),
                Outcome::Panic => json!({"st": "panic"}),
            };
            let clash = dom(&obs.events, &obs.ws_text).iter().any(prefix_clash);
            o.line(&json!({"ev": "Call", "op": op, "events": obs.events, "result": result, "reader_error": err_json(&obs),
                           "prefix_clash": clash, "doc": String::from_utf8_lossy(&bytes), "hex": hex(&bytes),
                           "iofault": iofault.map(|(at, kind, chunk)| json!({"at": at, "kind": format!("{:?}", kind), "chunk": chunk})).unwrap_or(json!({"none": true}))}));
            calls += 1;
            session_docs.push(String::from_utf8_lossy(&bytes).into_owned());
        }
        // the rendering of the parsed tree (with whatever text content the documents had) for RenderTrace
        // (names outside the model alphabet — damaged documents — cannot be judged by the renderer specification)
        // every other tree loses two to four children of its document element through the public API before it is rendered
        // (what is left must still come in the order of first appearance)
        if s % 2 == 1 {
            if let Some(tree) = sess.tree.as_mut() {
                for _ in 0..(2 + r.below(3)) {
                    let names: Vec<String> = tree.children().iter().map(|c| c.inner_t().name.clone()).collect();
                    if names.len() > 1 {
                        let victim = names[r.below(names.len())].clone();
                        tree.remove_child(&victim);
                        session_docs.push(format!("(remove_child {})", victim));
                    }
                }
            }
        }
        // (trees deeper than 320 levels are left to SchemaTrace: the renderer specification needs quadratic time in the depth)
        if let (Some(t), Some(tree)) = (renders.as_mut(), sess.tree.as_ref().filter(|t| { let v = t.verif_view(); crate::render::in_alphabet(&v) && crate::proj::view_depth(&v) <= 320 })) {
            let opts = vec![xml_schema_generator::Options::quick_xml_de(), {
                let mut s2 = xml_schema_generator::Options::serde_xml_rs();
                s2.sort = xml_schema_generator::SortBy::XmlName;
                s2
            }];
            t.line(&crate::render::render_event(tree, &opts, json!({"docs": session_docs})));
        }
    }
    if let Some(t) = renders {
        t.finish();
    }
    let lines = o.finish();
    println!("{}", json!({"kind": "schema-trace", "events": lines, "calls": calls, "sessions": sessions, "outcomes": outcomes}));
}

/// run the documents of a replay file as one session and log it for SchemaTrace
pub fn docs_trace(a: &Args) {
    let v: Value = serde_json::from_str(&std::fs::read_to_string(a.req("docs")).expect("docs file")).expect("json");
    let mut o = Out::create(&a.req("out"));
    o.line(&json!({"ev": "Reset"}));
    let mut sess = Session::new();
    for d in v["docs"].as_array().expect("docs") {
        let bytes = unhex(d["hex"].as_str().unwrap_or(""));
        let cfg = cfg_from(&d["cfg"]);
        let op = if sess.tree.is_some() { "extend" } else { "parse" };
        let obs = observe(&bytes, &cfg);
        let out = sess.feed(&bytes, &cfg, 0);
        let result = match &out {
            Outcome::Ok(v) => crate::proj::result_ok(v),
            Outcome::Err { kind, position, debug, .. } => json!({"st": "err", "kind": kind, "position": position, "debug": debug}),
            Outcome::Panic => json!({"st": "panic"}),
        };
        let clash = dom(&obs.events, &obs.ws_text).iter().any(prefix_clash);
        o.line(&json!({"ev": "Call", "op": op, "events": obs.events, "result": result, "reader_error": err_json(&obs),
                       "prefix_clash": clash, "doc": String::from_utf8_lossy(&bytes), "hex": hex(&bytes)}));
    }
    let lines = o.finish();
    println!("{}", json!({"kind": "docs-trace", "events": lines}));
}

/// what the independent reader pass saw as error (position and Debug text), or position -1
fn err_json(obs: &crate::events::Observed) -> Value {
    match &obs.error {
        Some((p, d)) => json!({"position": p, "debug": d}),
        None => json!({"position": -1, "debug": ""}),
    }
}

/// the documents of parser cases as bytes (hex), one per line: inputs for other drivers (CLI, programs)
pub fn cases_docs(a: &Args) {
    let cases = read_lines(&a.req("cases"));
    let max = a.num("max", 200) as usize;
    let stride = (cases.len() / max.max(1)).max(1);
    let mut o = Out::create(&a.req("out"));
    for c in cases.iter().step_by(stride) {
        if c["expect"]["st"] != "ok" || c["indomain"] != true {
            continue;
        }
        if let Some(call) = c["calls"].as_array().and_then(|x| x.first()) {
            let d = serialize(call["events"].as_array().unwrap(), 0);
            o.line(&json!({"hex": hex(&d.bytes), "text": String::from_utf8_lossy(&d.bytes)}));
        }
    }
    let n = o.finish();
    println!("{}", json!({"kind": "docs", "docs": n}));
}

fn step_json(s: &xml_schema_generator::verif::Step) -> Value {
    use xml_schema_generator::verif::Step;
    match s {
        Step::Snap { name, counts, check } => json!({"ev": "Snap", "name": name, "check": check,
            "counts": counts.iter().map(|(n, c)| json!([n, c])).collect::<Vec<_>>()}),
        Step::Enter { name, attrs, empty, existed, child } => json!({"ev": "Enter", "name": name, "attrs": attrs, "empty": empty,
            "existed": existed, "child": view_json(child)}),
        Step::Event { kind, elem } => json!({"ev": "Event", "kind": kind,
            "elem": elem.as_ref().map(view_json).unwrap_or(json!({"none": true}))}),
        Step::Closed { parent } => json!({"ev": "Closed", "parent": view_json(parent)}),
    }
}

/// one session with the hooks recording: Reset, then Begin / hook steps / Return per document
fn record_session(o: &mut Out, docs: &[Vec<u8>]) -> usize {
    record_session_cfg(o, docs, None)
}

/// with `hostile`: every document is read under a random reader configuration and through a chunked reader
fn record_session_cfg(o: &mut Out, docs: &[Vec<u8>], mut hostile: Option<&mut Rng>) -> usize {
    o.line(&json!({"ev": "Reset"}));
    let mut sess = Session::new();
    let mut calls = 0;
    for bytes in docs {
        let (cfg, chunk) = match hostile.as_mut() {
            Some(r) => (ReaderCfg { trim_text: r.chance(1, 2), expand_empty: r.chance(1, 2), check_end_names: r.chance(1, 2),
                                    allow_unmatched_ends: r.chance(1, 3) }, [0usize, 1, 2, 3, 7, 64][r.below(6)]),
            None => (ReaderCfg::default_cfg(), 0),
        };
        let before = sess.tree.as_ref().map(|t| view_json(&t.verif_view()));
        let op = if before.is_some() { "extend" } else { "parse" };
        o.line(&json!({"ev": "Begin", "op": op, "tree": before.unwrap_or(json!({"none": true})), "doc": String::from_utf8_lossy(bytes), "hex": hex(bytes)}));
        let (out, steps) = sess.feed_recorded(bytes, &cfg, chunk);
        for s in &steps {
            o.line(&step_json(s));
        }
        match &out {
            Outcome::Ok(v) => o.line(&json!({"ev": "Return", "ok": true, "tree": view_json(v), "kind": ""})),
            Outcome::Err { kind, .. } => o.line(&json!({"ev": "Return", "ok": false, "tree": {"none": true}, "kind": kind})),
            Outcome::Panic => o.line(&json!({"ev": "Panic"})),
        }
        calls += 1;
    }
    calls
}

/// impl -> spec, mechanism level: sessions recorded through the parser hooks for ParserTrace
pub fn record_parser(a: &Args) {
    use crate::gen::*;
    let mut r = Rng::new(a.num("seed", 1));
    let sessions = a.num("n", 100) as usize;
    let max_elems = a.num("elems", 25) as usize;
    let damage_pct = a.num("damage", 6) as usize;
    let mut o = Out::create(&a.req("out"));
    let mut calls = 0usize;
    // first the documents given explicitly (the repository's own test documents), one session each
    if let Some(p) = a.get("docs") {
        for d in read_lines(&p) {
            let docs: Vec<Vec<u8>> = d["docs"].as_array().map(|x| x.iter().map(|s| s.as_str().unwrap_or("").as_bytes().to_vec()).collect()).unwrap_or_default();
            calls += record_session(&mut o, &docs);
        }
    }
    for s in 0..sessions {
        let mut g = if s % 3 == 0 { GenCfg::rich() } else { GenCfg::plain() };
        g.pretty = s % 5 == 1;
        g.max_depth = 2 + r.below(4);
        g.max_kids = 1 + r.below(5);
        let k = 2 + r.below(4);
        let mut pool = g.names.clone();
        r.shuffle(&mut pool);
        pool.truncate(k);
        g.names = pool;
        let root = r.pick(&g.names).clone();
        let ndocs = 1 + r.below(4);
        let mut docs = Vec::new();
        for _ in 0..ndocs {
            let mut bytes = if r.chance(1, 20) { elementless(&mut r) } else {
                let budget = 1 + r.below(max_elems);
                document(&mut r, &g, &root, budget)
            };
            if r.chance(damage_pct, 100) {
                bytes = damage(&mut r, &bytes);
            }
            docs.push(bytes);
        }
        if a.num("hostile", 0) == 1 {
            let mut r2 = Rng::new(r.next());
            calls += record_session_cfg(&mut o, &docs, Some(&mut r2));
        } else {
            calls += record_session(&mut o, &docs);
        }
    }
    let lines = o.finish();
    println!("{}", json!({"kind": "parser-trace", "events": lines, "calls": calls}));
}
