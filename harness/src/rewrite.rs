//! relations between runs (C11 rewrites, C06 permutations / repetitions / element-less documents, C05 repetitions):
//! a single trace cannot express them; the specification supplies the cases and the relation that must hold

use crate::events::{configure, observe};
use crate::proj::{proj, unordered};
use crate::run::*;
use crate::util::*;
use crate::xmlser::{serialize_salted, ReaderCfg};
use quick_xml::reader::Reader;
use serde_json::{json, Value};
use xml_schema_generator::{extend_struct, into_struct, Element, Options, SortBy};

pub fn all_options() -> Vec<(&'static str, Options)> {
    let mut q2 = Options::quick_xml_de();
    q2.sort = SortBy::XmlName;
    let mut s2 = Options::serde_xml_rs();
    s2.sort = SortBy::XmlName;
    vec![
        ("quick_xml_de", Options::quick_xml_de()),
        ("quick_xml_de+sort", q2),
        ("serde_xml_rs", Options::serde_xml_rs()),
        ("serde_xml_rs+sort", s2),
    ]
}

/// the rendering under both presets and both sort orders, concatenated
pub fn render_all(e: &Element<String>) -> String {
    let mut out = String::new();
    for (name, o) in all_options() {
        out.push_str(&format!("// {}\n", name));
        out.push_str(&e.to_serde_struct(&o));
    }
    out
}

#[derive(Clone, PartialEq, Debug)]
pub enum Final {
    Rendered(String),
    Err(&'static str),
    Panic,
}

impl Final {
    pub fn to_json(&self) -> Value {
        match self {
            Final::Rendered(s) => json!({"st": "ok", "rendered": s}),
            Final::Err(k) => json!({"st": "err", "kind": k}),
            Final::Panic => json!({"st": "panic"}),
        }
    }
}

/// how the bytes are fed to the reader
#[derive(Clone, Copy, Debug)]
pub enum Feed {
    Whole,
    Chunk(usize),
    BufReader(usize),
}

fn run_one(prev: Option<Element<String>>, bytes: &[u8], cfg: &ReaderCfg, feed: Feed)
    -> Result<Result<Element<String>, xml_schema_generator::ParserError>, ()> {
    crate::util::toggle_logging();
    if let Some(t) = prev.as_ref() {
        crate::util::probe_render(t);
    }
    std::panic::catch_unwind(std::panic::AssertUnwindSafe(|| match feed {
        Feed::Whole | Feed::Chunk(_) => {
            let chunk = if let Feed::Chunk(n) = feed { n } else { 0 };
            let mut reader = Reader::from_reader(Chunked::new(bytes, chunk));
            configure(&mut reader, cfg);
            match prev {
                None => into_struct(&mut reader),
                Some(t) => extend_struct(&mut reader, t),
            }
        }
        Feed::BufReader(n) => {
            let mut reader = Reader::from_reader(std::io::BufReader::with_capacity(n, bytes));
            configure(&mut reader, cfg);
            match prev {
                None => into_struct(&mut reader),
                Some(t) => extend_struct(&mut reader, t),
            }
        }
    }))
    .map_err(|_| ())
}

/// parse the first document, extend with the others, render
pub fn run_session(docs: &[(Vec<u8>, ReaderCfg)], feed: Feed) -> (Final, Option<Element<String>>) {
    let mut tree: Option<Element<String>> = None;
    for (bytes, cfg) in docs {
        match run_one(tree.take(), bytes, cfg, feed) {
            Ok(Ok(t)) => tree = Some(t),
            Ok(Err(e)) => {
                return (Final::Err(match classify(&e) {
                    Outcome::Err { kind, .. } => kind,
                    _ => "?",
                }), None)
            }
            Err(()) => return (Final::Panic, None),
        }
    }
    match tree {
        Some(t) => {
            let r = std::panic::catch_unwind(std::panic::AssertUnwindSafe(|| render_all(&t)));
            match r {
                Ok(s) => (Final::Rendered(s), Some(t)),
                Err(_) => (Final::Panic, None),
            }
        }
        None => (Final::Err("none"), None),
    }
}

fn ev(kind: &str) -> Value {
    json!({"kind": kind, "name": "", "attrs": [], "fault": "none"})
}

/// all single applications of the C11 rewrites to one call's events: (description, new events)
fn rewrites_of(evs: &[Value]) -> Vec<(String, Vec<Value>)> {
    let mut out = Vec::new();
    let body_end = evs.iter().rposition(|e| e["kind"] == "Eof").unwrap_or(evs.len());
    for i in 0..evs.len() {
        let k = evs[i]["kind"].as_str().unwrap_or("");
        match k {
            "Text" | "CData" => {
                let mut v = evs.to_vec();
                v[i]["kind"] = json!(if k == "Text" { "CData" } else { "Text" });
                // two adjacent Text events cannot be written down; a CDATA next to text can
                let adjacent_text = |v: &Vec<Value>, j: usize| j < v.len() && v[j]["kind"] == "Text";
                if !(k == "CData" && ((i > 0 && adjacent_text(&v, i - 1)) || adjacent_text(&v, i + 1))) {
                    out.push((format!("text<->cdata at {}", i), v));
                }
            }
            "Empty" => {
                let mut v = evs.to_vec();
                v[i]["kind"] = json!("Start");
                v.insert(i + 1, ev("End"));
                out.push((format!("<x/> -> <x></x> at {}", i), v));
            }
            "Start" => {
                if i + 1 < evs.len() && evs[i + 1]["kind"] == "End" {
                    let mut v = evs.to_vec();
                    v[i]["kind"] = json!("Empty");
                    v.remove(i + 1);
                    out.push((format!("<x></x> -> <x/> at {}", i), v));
                }
            }
            "Comment" | "PI" | "Decl" | "DocType" => {
                let mut v = evs.to_vec();
                v.remove(i);
                let merges = i > 0 && i < v.len() && v[i - 1]["kind"] == "Text" && v[i]["kind"] == "Text";
                if !merges {
                    out.push((format!("remove {} at {}", k, i), v));
                }
            }
            _ => {}
        }
    }
    for i in 0..=body_end {
        for k in ["Comment", "PI", "Decl", "DocType"] {
            let mut v = evs.to_vec();
            v.insert(i, ev(k));
            out.push((format!("insert {} at {}", k, i), v));
        }
    }
    out
}

/// C11: apply the rewrites to the cases enumerated by TLC and compare the rendered bytes
pub fn c11(a: &Args) {
    let mut cases = read_lines(&a.req("cases"));
    // chains at the boundary depths take part in every run, whatever the stride
    let nplain = cases.len();
    if a.num("boundary", 0) == 1 {
        cases.extend(crate::gen::boundary_event_cases());
        cases.extend(crate::gen::literal_event_cases());
    }
    let mut r = Rng::new(a.num("seed", 1));
    let per_kind_all = a.num("all", 0) == 1;
    let stride = a.num("stride", 1) as usize;
    let mut mismatches = Vec::new();
    let (mut sessions, mut applied, mut skipped) = (0usize, 0usize, 0usize);
    let mut kinds: std::collections::BTreeMap<String, usize> = Default::default();
    for (ci, c) in cases.iter().enumerate() {
        if (ci < nplain && ci % stride != 0) || c["indomain"] != true || c["expect"]["st"] != "ok" {
            skipped += 1;
            continue;
        }
        let calls: Vec<Vec<Value>> = c["calls"].as_array().unwrap().iter().map(|x| x["events"].as_array().unwrap().clone()).collect();
        let docs: Vec<(Vec<u8>, ReaderCfg)> = calls.iter().map(|e| { let d = serialize_salted(e, 0, 0); (d.bytes, d.cfg) }).collect();
        let (base, _) = run_session(&docs, Feed::Whole);
        sessions += 1;
        // the same bytes with a byte-order mark in front, through readers whose first chunk is shorter than the mark
        {
            let bom: Vec<(Vec<u8>, ReaderCfg)> = docs.iter().map(|(b, c)| { let mut v = vec![0xEF, 0xBB, 0xBF]; v.extend_from_slice(b); (v, *c) }).collect();
            let (bom_base, _) = run_session(&bom, Feed::Whole);
            for feed in [Feed::Chunk(1), Feed::Chunk(2), Feed::BufReader(1), Feed::BufReader(2), Feed::Chunk(3)] {
                let (f, _) = run_session(&bom, feed);
                applied += 1;
                *kinds.entry("byte-order mark, small first chunk".to_string()).or_default() += 1;
                if f != bom_base {
                    mismatches.push(json!({"kind": "rewrite", "class": "c11", "rewrite": "same bytes (with a byte-order mark), another buffer size", "feed": format!("{:?}", feed),
                        "docs": docs_json(&bom), "rewritten_docs": docs_json(&bom), "expected": bom_base.to_json(), "actual": f.to_json()}));
                }
            }
        }
        let mut check = |what: String, ndocs: Vec<(Vec<u8>, ReaderCfg)>, feed: Feed, mismatches: &mut Vec<Value>| {
            let (f, _) = run_session(&ndocs, feed);
            applied += 1;
            *kinds.entry(what.split(" at ").next().unwrap_or("").to_string()).or_default() += 1;
            if f != base {
                mismatches.push(json!({"kind": "rewrite", "class": "c11", "rewrite": what, "feed": format!("{:?}", feed),
                    "docs": docs_json(&docs), "rewritten_docs": docs_json(&ndocs), "expected": base.to_json(), "actual": f.to_json()}));
            }
        };
        // other values / other text content (including whitespace-only text)
        let nlit = crate::gen::literals().len().max(1);
        // (the cases built from the literals get every literal as a value, the others two of them)
        let lit_salts: Vec<usize> = if ci >= nplain { (0..nlit).map(|k| 27 + k).collect() } else { vec![27 + ci % nlit, 27 + (ci * 5 + 1) % nlit] };
        for salt in [1usize, 2, 3, 4, 6 + ci % 21, 6 + (ci * 7 + 3) % 21].into_iter().chain(lit_salts) {
            let nd: Vec<(Vec<u8>, ReaderCfg)> = calls.iter().map(|e| { let d = serialize_salted(e, 0, salt); (d.bytes, d.cfg) }).collect();
            check(format!("other values (salt {})", salt), nd, Feed::Whole, &mut mismatches);
        }
        // reader configuration and buffer sizes
        let mut exp = docs.clone();
        for d in exp.iter_mut() {
            d.1.expand_empty = true;
        }
        check("expand_empty_elements".into(), exp, Feed::Whole, &mut mismatches);
        for n in [1usize, 2, 3, 5, 8, 64] {
            check(format!("chunk {}", n), docs.clone(), Feed::Chunk(n), &mut mismatches);
            check(format!("BufReader capacity {}", n), docs.clone(), Feed::BufReader(n), &mut mismatches);
        }
        // structural rewrites in one document at a time
        for (di, evs) in calls.iter().enumerate() {
            let mut rw = rewrites_of(evs);
            if !per_kind_all {
                // one random application per rewrite kind
                r.shuffle(&mut rw);
                let mut seen: Vec<String> = Vec::new();
                rw.retain(|(w, _)| {
                    let k = w.split(" at ").next().unwrap_or("").to_string();
                    if seen.contains(&k) { false } else { seen.push(k); true }
                });
            }
            for (what, nevs) in rw {
                let mut nd = docs.clone();
                let d = serialize_salted(&nevs, 0, 0);
                // the rewritten bytes must read back as the rewritten events, or the rewrite was not applied
                if observe(&d.bytes, &d.cfg).events.len() != nevs.len() {
                    continue;
                }
                nd[di] = (d.bytes, d.cfg);
                check(format!("{} in doc {}", what, di), nd, Feed::Whole, &mut mismatches);
            }
        }
    }
    finish_report("c11", sessions, &mismatches, a.get("mismatches"),
        json!({"applied": applied, "skipped": skipped, "rewrite_kinds": kinds}));
}

fn permutations(n: usize) -> Vec<Vec<usize>> {
    if n == 0 {
        return vec![vec![]];
    }
    let mut out = Vec::new();
    for p in permutations(n - 1) {
        for i in 0..=p.len() {
            let mut q = p.clone();
            q.insert(i, n - 1);
            out.push(q);
        }
    }
    out
}

fn schema_of(docs: &[(Vec<u8>, ReaderCfg)]) -> Value {
    let mut sess = Session::new();
    let mut last = json!({"st": "none"});
    for (b, c) in docs {
        last = match sess.feed(b, c, 0) {
            Outcome::Ok(v) => json!({"st": "ok", "schema": unordered(&proj(&v))}),
            Outcome::Err { kind, .. } => json!({"st": "err", "kind": kind}),
            Outcome::Panic => json!({"st": "panic"}),
        };
        if last["st"] != "ok" {
            break;
        }
    }
    last
}

/// C06: permutations, repetitions and element-less documents do not change the schema (modulo field order)
pub fn c06(a: &Args) {
    let mut cases = read_lines(&a.req("cases"));
    let nplain = cases.len();
    // scale: one element seen 1 000 / 10 050 / 70 000 times, in documents whose rows differ in which children they have
    if a.num("scale", 0) == 1 {
        for n in [1000usize, 10_050, 70_000] {
            let rows = |k: usize, with_note: bool| -> String {
                (0..k).map(|_| if with_note { "<row><id/><note/></row>" } else { "<row><id/></row>" }).collect()
            };
            let small = "<a><row><id/><note/></row><row><id/></row></a>".to_string();
            let big = format!("<a>{}</a>", rows(n, true));
            let late = format!("<a>{}<row><id/><extra/></row></a>", rows(n, true));
            for docs in [vec![small.clone(), big.clone()], vec![big.clone(), small.clone()], vec![late.clone(), small.clone()], vec![small.clone(), late.clone()]] {
                cases.push(json!({"indomain": true, "expect": {"st": "ok"}, "raw": docs, "calls": []}));
            }
        }
    }
    let stride = a.num("stride", 1) as usize;
    let mut mismatches = Vec::new();
    let (mut sessions, mut applied) = (0usize, 0usize);
    let empties: [&[u8]; 4] = [b"", b"<!-- c -->", b"<?xml version='1.0'?>", b"\n"];
    for (ci, c) in cases.iter().enumerate() {
        let calls = c["calls"].as_array().unwrap();
        if (ci < nplain && ci % stride != 0) || c["indomain"] != true || c["expect"]["st"] != "ok" {
            continue;
        }
        let docs: Vec<(Vec<u8>, ReaderCfg)> = match c.get("raw").and_then(|r| r.as_array()) {
            Some(raw) => raw.iter().map(|d| (d.as_str().unwrap_or("").as_bytes().to_vec(), ReaderCfg::default_cfg())).collect(),
            None => calls.iter().map(|x| { let d = serialize_salted(x["events"].as_array().unwrap(), 0, 0); (d.bytes, d.cfg) }).collect(),
        };
        // element-less documents cannot come first (a parse of them is an error by C08)
        let has_elem = |d: &(Vec<u8>, ReaderCfg)| observe(&d.0, &d.1).events.iter().any(|e| e["kind"] == "Start" || e["kind"] == "Empty");
        let real: Vec<(Vec<u8>, ReaderCfg)> = docs.iter().filter(|d| has_elem(d)).cloned().collect();
        if real.is_empty() {
            continue;
        }
        sessions += 1;
        let base = schema_of(&docs);
        // the scale cases are too large for the trace specification (SchemaTrace needs more than 25 minutes for 10 050
        // rows); for them the schema the documents determine is computed by the harness's own DOM inference (proj::ty_of,
        // the one the replay cross-checks against Schema!TyOf on every enumerated history)
        if c.get("raw").is_some() && base["st"] == "ok" {
            let mut roots: Vec<crate::proj::Node> = Vec::new();
            for (b, cfg) in &docs {
                let obs = observe(b, cfg);
                roots.extend(crate::proj::dom(&obs.events, &obs.ws_text));
            }
            let refs: Vec<&crate::proj::Node> = roots.iter().collect();
            let expect = unordered(&crate::proj::ty_of(&refs));
            applied += 1;
            if base["schema"] != expect {
                mismatches.push(json!({"kind": "rewrite", "class": "c06", "rewrite": "the schema inferred from the union of all occurrences (scale case)",
                    "docs": docs_json(&docs[..1]), "rewritten_docs": docs_json(&docs[..1]), "expected": expect, "actual": base["schema"],
                    "sizes": docs.iter().map(|d| d.0.len()).collect::<Vec<_>>()}));
            }
        }
        let mut check = |what: String, nd: Vec<(Vec<u8>, ReaderCfg)>, mismatches: &mut Vec<Value>| {
            let s = schema_of(&nd);
            applied += 1;
            if s != base {
                mismatches.push(json!({"kind": "rewrite", "class": "c06", "rewrite": what, "docs": docs_json(&docs),
                    "rewritten_docs": docs_json(&nd), "expected": base, "actual": s}));
            }
        };
        if real.len() <= 4 {
            for p in permutations(real.len()) {
                check(format!("permutation {:?}", p), p.iter().map(|i| real[*i].clone()).collect(), &mut mismatches);
            }
        }
        let doubled: Vec<(Vec<u8>, ReaderCfg)> = real.iter().flat_map(|d| vec![d.clone(), d.clone()]).collect();
        check("every document twice".into(), doubled, &mut mismatches);
        let mut again = real.clone();
        again.push(real[0].clone());
        check("first document again at the end".into(), again, &mut mismatches);
        for (k, e) in empties.iter().enumerate() {
            let mut nd = vec![real[0].clone()];
            for d in &real[1..] {
                nd.push((e.to_vec(), ReaderCfg::default_cfg()));
                nd.push(d.clone());
            }
            nd.push((e.to_vec(), ReaderCfg::default_cfg()));
            check(format!("element-less document {} interleaved", k), nd, &mut mismatches);
        }
    }
    finish_report("c06", sessions, &mismatches, a.get("mismatches"), json!({"applied": applied}));
}

/// replay of a `rewrite` violation: two document sequences that must give the same result
pub fn pair_compare(a: &Args) {
    let v: Value = serde_json::from_str(&std::fs::read_to_string(a.req("pair")).expect("pair file")).expect("json");
    let docs = |k: &str| -> Vec<(Vec<u8>, ReaderCfg)> {
        v[k].as_array().unwrap().iter().map(|d| (unhex(d["hex"].as_str().unwrap_or("")), cfg_from(&d["cfg"]))).collect()
    };
    let feed = {
        let f = v["feed"].as_str().unwrap_or("Whole");
        let n: usize = f.chars().filter(|c| c.is_ascii_digit()).collect::<String>().parse().unwrap_or(0);
        if f.starts_with("Chunk") { Feed::Chunk(n) } else if f.starts_with("BufReader") { Feed::BufReader(n) } else { Feed::Whole }
    };
    if v["class"] == "c06" {
        let (x, y) = (schema_of(&docs("a")), schema_of(&docs("b")));
        println!("{}", json!({"equal": x == y, "a": x, "b": y}));
    } else {
        let (x, _) = run_session(&docs("a"), Feed::Whole);
        let (y, _) = run_session(&docs("b"), feed);
        println!("{}", json!({"equal": x == y, "a": x.to_json(), "b": y.to_json()}));
    }
}

pub fn fnv(s: &str) -> u64 {
    let mut h: u64 = 0xcbf29ce484222325;
    for b in s.bytes() {
        h ^= b as u64;
        h = h.wrapping_mul(0x100000001b3);
    }
    h
}

fn final_text(f: &Final) -> String {
    match f {
        Final::Rendered(s) => s.clone(),
        Final::Err(k) => format!("err:{}", k),
        Final::Panic => "panic".into(),
    }
}

/// C05: the same documents rendered again and again (each HashMap instance gets a fresh RandomState) within
/// one thread and across threads must give byte-identical output; prints one digest per case so that the
/// driver can compare fresh processes as well
pub fn c05(a: &Args) {
    let cases = read_lines(&a.req("cases"));
    let reps = a.num("reps", 16) as usize;
    let threads = a.num("threads", 4) as usize;
    let stride = a.num("stride", 1) as usize;
    let mut mismatches = Vec::new();
    let mut digests: Vec<String> = Vec::new();
    let (mut sessions, mut runs) = (0usize, 0usize);
    // random sessions over a pool in which identifiers and struct names collide (case / separator variants, prefixes),
    // with attributes, text and several documents: inputs on which any internal order is observable
    let nrandom = a.num("random", 0) as usize;
    let mut extra_cases: Vec<Value> = Vec::new();
    if nrandom > 0 {
        use crate::gen::*;
        let mut r = Rng::new(a.num("seed", 1));
        for s in 0..nrandom {
            let mut g = GenCfg::rich();
            g.names = ["Foo", "foo", "FOO", "a-b", "a.b", "a_b", "ns:a", "x:a", "a", "type", "Type", "text"].iter().map(|x| x.to_string()).collect();
            g.attrs = ["id", "Id", "ID", "x-y", "x_y", "n:q", "q", "type", "text", "xmlns:n"].iter().map(|x| x.to_string()).collect();
            if s % 2 == 1 {
                // the literal forms the identifier disambiguation itself produces (numeric suffix, _attr, text_content),
                // next to names that collide: gaps in the suffix sequence, an attribute next to a child called x_attr ...
                g.names = ["foo", "Foo", "FOO", "fOO", "foo_1", "foo_2", "foo_3", "foo_attr", "text", "text_content"].iter().map(|x| x.to_string()).collect();
                g.attrs = ["foo", "Foo", "foo_attr", "foo_1", "text", "text_content"].iter().map(|x| x.to_string()).collect();
                g.text_pct = 60;
            }
            if s % 5 == 4 {
                // (element, child) pairs whose names read the same once joined: (order, item_type) / (order_item, type)
                g.names = ["order", "order_item", "item_type", "type", "item", "order_item_type"].iter().map(|x| x.to_string()).collect();
                g.attrs = ["type", "item_type", "id"].iter().map(|x| x.to_string()).collect();
            }
            g.max_depth = 2 + r.below(3);
            g.max_kids = 2 + r.below(4);
            g.pretty = s % 4 == 0;
            let k = 3 + r.below(6);
            let mut pool = g.names.clone();
            r.shuffle(&mut pool);
            pool.truncate(k);
            g.names = pool;
            let root = r.pick(&g.names).clone();
            let nd = 1 + r.below(3);
            let docs: Vec<Value> = (0..nd).map(|_| {
                let budget = 2 + r.below(24);
                let mut d = document(&mut r, &g, &root, budget);
                // every seventh session has damaged documents: whatever the outcome is (an error, a rendering of what
                // the reader accepted), it has to be the same every time
                if s % 7 == 6 {
                    d = damage(&mut r, &d);
                }
                json!({"hex": hex(&d), "cfg": {}})
            }).collect();
            extra_cases.push(json!({"docs": docs, "expect": {"st": "ok"}}));
            // every twelfth random session is followed by one built around a boundary size (deep / wide / long)
            if s % 12 == 11 {
                let b = s / 12;
                let docs: Vec<Value> = boundary_session(&mut r, b, BOUNDARIES[(b / BOUNDARY_KINDS + b) % BOUNDARIES.len()])
                    .iter().map(|d| json!({"hex": hex(d), "cfg": {}})).collect();
                extra_cases.push(json!({"docs": docs, "expect": {"st": "ok"}}));
            }
        }
    }
    // with --reverse the inputs are processed in the opposite order (digests are still written in input order): state
    // that leaks from one rendering into the next shows as a digest that differs between two processes
    let reverse = a.num("reverse", 0) == 1;
    let all: Vec<(usize, &Value)> = cases.iter().chain(extra_cases.iter()).enumerate().collect();
    let mut order: Vec<(usize, &Value)> = if reverse { all.into_iter().rev().collect() } else { all };
    // --shuffle N: a pseudo-random order (two inputs that disturb each other through process-wide state are seen in
    // either order by some process)
    if a.num("shuffle", 0) > 0 {
        Rng::new(a.num("shuffle", 0)).shuffle(&mut order);
    }
    let mut digest_at: Vec<(usize, String)> = Vec::new();
    for (ci, c) in order {
        if (ci < cases.len() && ci % stride != 0) || c["expect"]["st"] != "ok" {
            continue;
        }
        let docs: Vec<(Vec<u8>, ReaderCfg)> = if c.get("docs").is_some() {
            c["docs"].as_array().unwrap().iter().map(|d| (unhex(d["hex"].as_str().unwrap_or("")), cfg_from(&d["cfg"]))).collect()
        } else {
            c["calls"].as_array().unwrap().iter().map(|x| { let d = serialize_salted(x["events"].as_array().unwrap(), 0, 0); (d.bytes, d.cfg) }).collect()
        };
        sessions += 1;
        let (base, _) = run_session(&docs, Feed::Whole);
        let base_text = final_text(&base);
        digest_at.push((ci, format!("{:016x}", fnv(&base_text))));
        let mut differing: Option<(String, String)> = None;
        for _ in 0..reps {
            let (f, _) = run_session(&docs, Feed::Whole);
            runs += 1;
            if f != base {
                differing = Some(("repetition in the same thread".into(), final_text(&f)));
                break;
            }
        }
        if differing.is_none() && threads > 0 {
            let handles: Vec<_> = (0..threads).map(|_| {
                let d = docs.clone();
                std::thread::spawn(move || final_text(&run_session(&d, Feed::Whole).0))
            }).collect();
            for h in handles {
                runs += 1;
                match h.join() {
                    Ok(t) => {
                        if t != base_text && differing.is_none() {
                            differing = Some(("another thread".into(), t));
                        }
                    }
                    Err(_) => differing = Some(("another thread".into(), "panic".into())),
                }
            }
        }
        if let Some((how, other)) = differing {
            mismatches.push(json!({"kind": "repeat", "class": "c05", "how": how, "docs": docs_json(&docs),
                                   "first": base_text, "other": other}));
        }
    }
    digest_at.sort();
    digests.extend(digest_at.into_iter().map(|x| x.1));
    if let Some(p) = a.get("digests") {
        std::fs::write(p, digests.join("\n")).expect("write digests");
    }
    finish_report("c05", sessions, &mismatches, a.get("mismatches"), json!({"runs": runs, "applied": runs}));
}
