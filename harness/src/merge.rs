//! C15: merge_necessity — replay of TLC-enumerated pairs and recording of random pairs

use crate::util::*;
use serde_json::{json, Value};
use xml_schema_generator::{merge_necessity, Necessity};

fn items(v: &Value) -> Vec<Necessity<i64>> {
    v.as_array()
        .expect("list")
        .iter()
        .map(|it| {
            let val = it["v"].as_i64().expect("int item");
            match it["t"].as_str() {
                Some("M") => Necessity::Mandatory(val),
                _ => Necessity::Optional(val),
            }
        })
        .collect()
}

fn to_json(v: &[Necessity<i64>]) -> Value {
    Value::Array(
        v.iter()
            .map(|n| match n {
                Necessity::Mandatory(x) => json!({"t": "M", "v": x}),
                Necessity::Optional(x) => json!({"t": "O", "v": x}),
            })
            .collect(),
    )
}

/// spec -> impl: every line {vec, other, merged}; the real merge must return `merged`
/// C15 is stated for any item type that can be compared: the same pair of lists merged as lists of `&str` that borrow from
/// two different owners, of `String`, of `f64`, of `(u8, bool)` and of a type with its own `PartialEq` must give the
/// result of the `i64` lists, item by item. Returns a description of the first type that does not.
fn other_item_types(vec: &[Necessity<i64>], other: &[Necessity<i64>], expect: &[Necessity<i64>]) -> Option<String> {
    fn conv<T, U>(l: &[Necessity<T>], mut f: impl FnMut(&T) -> U) -> Vec<Necessity<U>> {
        l.iter().map(|x| match x { Necessity::Mandatory(v) => Necessity::Mandatory(f(v)), Necessity::Optional(v) => Necessity::Optional(f(v)) }).collect()
    }
    fn same<T, U: PartialEq>(got: &[Necessity<U>], expect: &[Necessity<T>], f: impl Fn(&T) -> U) -> bool {
        got.len() == expect.len() && got.iter().zip(expect).all(|(g, e)| match (g, e) {
            (Necessity::Mandatory(a), Necessity::Mandatory(b)) | (Necessity::Optional(a), Necessity::Optional(b)) => *a == f(b),
            _ => false,
        })
    }
    // &str: every list has its own backing strings, so equal words live at different addresses
    let names = |l: &[Necessity<i64>]| -> Vec<String> { l.iter().map(|x| format!("w{}", x.inner_t())).collect() };
    let (own_a, own_b) = (names(vec), names(other));
    let mut ia = own_a.iter();
    let mut ib = own_b.iter();
    let sa: Vec<Necessity<&str>> = conv(vec, |_| ia.next().unwrap().as_str());
    let sb: Vec<Necessity<&str>> = conv(other, |_| ib.next().unwrap().as_str());
    let r = std::panic::catch_unwind(std::panic::AssertUnwindSafe(|| merge_necessity(sa, sb)));
    match r {
        Ok(m) => {
            let flat: Vec<Necessity<String>> = conv(&m, |s| s.to_string());
            if !same(&flat, expect, |v| format!("w{}", v)) {
                return Some("&str borrowed from two owners".into());
            }
        }
        Err(_) => return Some("&str (panic)".into()),
    }
    let m = merge_necessity(conv(vec, |v| format!("w{}", v)), conv(other, |v| format!("w{}", v)));
    if !same(&m, expect, |v| format!("w{}", v)) {
        return Some("String".into());
    }
    // f64: the value 0 is written 0.0 in one list and -0.0 in the other (equal, not the same bytes)
    let m = merge_necessity(conv(vec, |v| *v as f64), conv(other, |v| if *v == 0 { -0.0 } else { *v as f64 }));
    if !same(&m, expect, |v| *v as f64) {
        return Some("f64 (0.0 / -0.0)".into());
    }
    let m = merge_necessity(conv(vec, |v| (*v as u8, *v % 2 == 0)), conv(other, |v| (*v as u8, *v % 2 == 0)));
    if vec.iter().chain(other.iter()).all(|x| (0..256).contains(x.inner_t())) && !same(&m, expect, |v| (*v as u8, *v % 2 == 0)) {
        return Some("(u8, bool)".into());
    }
    // a type whose equality ignores part of its representation
    #[derive(Clone, Debug)]
    struct Tagged(i64, u64);
    impl PartialEq for Tagged {
        fn eq(&self, o: &Tagged) -> bool { self.0 == o.0 }
    }
    let m = merge_necessity(conv(vec, |v| Tagged(*v, 1)), conv(other, |v| Tagged(*v, 2)));
    if !same(&m, expect, |v| Tagged(*v, 0)) {
        return Some("a type whose PartialEq ignores a field".into());
    }
    None
}

/// a merge that is aborted by a panic inside the items' `PartialEq` (caught by the caller) must leave nothing behind
/// that a later, ordinary merge on the same thread could see
fn aborted_merge(k: usize) {
    #[derive(Clone, Debug)]
    struct Fragile(i64);
    impl PartialEq for Fragile {
        fn eq(&self, o: &Fragile) -> bool {
            if self.0 == 1000 || o.0 == 1000 {
                panic!("comparison refused");
            }
            self.0 == o.0
        }
    }
    // every item of the first list finds its partner, then the last one (1000) makes the comparison panic
    let n = 3 + k % 6;
    let mut vec: Vec<Necessity<Fragile>> = (0..n as i64).map(|i| Necessity::Mandatory(Fragile(i))).collect();
    vec.push(Necessity::Mandatory(Fragile(1000)));
    let other: Vec<Necessity<Fragile>> = (0..n as i64).rev().map(|i| Necessity::Optional(Fragile(i))).collect();
    let _ = std::panic::catch_unwind(std::panic::AssertUnwindSafe(|| merge_necessity(vec, other)));
}

pub fn replay(a: &Args) {
    let cases = read_lines(&a.req("cases"));
    let mut mismatches = Vec::new();
    for (ci, c) in cases.iter().enumerate() {
        if ci % 40 == 7 {
            aborted_merge(ci / 40);
        }
        let merged = merge_necessity(items(&c["vec"]), items(&c["other"]));
        if to_json(&merged) == c["merged"] {
            if let Some(ty) = other_item_types(&items(&c["vec"]), &items(&c["other"]), &merged) {
                mismatches.push(json!({"kind": "merge", "vec": c["vec"], "other": c["other"], "expected": c["merged"],
                    "actual": c["merged"], "item_type": ty}));
            }
        }
        let actual = to_json(&merged);
        if actual != c["merged"] {
            mismatches.push(json!({"kind": "merge", "vec": c["vec"], "other": c["other"],
                "expected": c["merged"], "actual": actual}));
        }
    }
    finish_report("merge", cases.len(), &mismatches, a.get("mismatches"), json!({}));
}

fn random_list(r: &mut Rng, alphabet: usize, maxlen: usize, dupfree: bool) -> Vec<Necessity<i64>> {
    // one list in eight has a boundary length (15, 16, 17, 31 .. 257) if the alphabet and the length bound allow it
    let fitting: Vec<usize> = crate::gen::BOUNDARIES.iter().copied().filter(|b| *b <= maxlen && *b <= alphabet).collect();
    let n = if !fitting.is_empty() && r.chance(1, 8) { *r.pick(&fitting) } else { r.below(maxlen + 1) };
    let mut out: Vec<Necessity<i64>> = Vec::new();
    let mut guard = 0;
    while out.len() < n && guard < 40 * n + 10 {
        guard += 1;
        let v = r.below(alphabet) as i64;
        if dupfree && out.iter().any(|x| *x.inner_t() == v) {
            continue;
        }
        out.push(if r.chance(1, 2) { Necessity::Mandatory(v) } else { Necessity::Optional(v) });
    }
    out
}

/// impl -> spec: random pairs beyond the exhaustive bound, one trace line per call
pub fn record(a: &Args) {
    let mut r = Rng::new(a.num("seed", 1));
    let n = a.num("n", 1000) as usize;
    let alphabet = a.num("alphabet", 16) as usize;
    let maxlen = a.num("maxlen", 12) as usize;
    let mut o = Out::create(&a.req("out"));
    for i in 0..n {
        // one call in eight gets lists with repeated values (outside C15's domain: conformance only)
        let dupfree = true;
        let vec = random_list(&mut r, alphabet, maxlen, dupfree);
        // one call in three gets a second list that is related to the first: identical, identical with other tags, a
        // permutation, an extension, a suffix, or empty (fast paths and early exits are written for exactly these)
        let other = match i % 3 {
            0 => {
                let flip = |r: &mut Rng, x: &Necessity<i64>| if r.chance(1, 4) {
                    match x { Necessity::Mandatory(v) => Necessity::Optional(*v), Necessity::Optional(v) => Necessity::Mandatory(*v) }
                } else { x.clone() };
                match r.below(9) {
                    7 => { let mut o: Vec<Necessity<i64>> = vec.iter().map(|x| flip(&mut r, x)).collect(); o.reverse(); o }
                    8 => { let k = if vec.is_empty() { 0 } else { r.below(vec.len() + 1) }; vec[..k].iter().map(|x| flip(&mut r, x)).collect() }
                    0 => vec.clone(),
                    1 => vec.iter().map(|x| flip(&mut r, x)).collect(),
                    2 => { let mut o: Vec<Necessity<i64>> = vec.iter().map(|x| flip(&mut r, x)).collect(); r.shuffle(&mut o); o }
                    3 => { let mut o = vec.clone(); for k in 0..(1 + r.below(5)) { o.push(Necessity::Mandatory((alphabet + k) as i64)); } o }
                    4 => { let k = if vec.is_empty() { 0 } else { r.below(vec.len()) }; vec[k..].iter().map(|x| flip(&mut r, x)).collect() }
                    5 => Vec::new(),
                    _ => { let mut o: Vec<Necessity<i64>> = (0..vec.len()).map(|k| Necessity::Mandatory((alphabet + 10 + k) as i64)).collect();
                           if let (Some(l), false) = (vec.last(), o.is_empty()) { let n = o.len(); o[n - 1] = l.clone(); } o }
                }
            }
            _ => random_list(&mut r, alphabet, maxlen, dupfree),
        };
        let (jv, jo) = (to_json(&vec), to_json(&other));
        let res = std::panic::catch_unwind(|| merge_necessity(vec, other));
        match res {
            Ok(m) => o.line(&json!({"ev": "Merge", "vec": jv, "other": jo, "result": to_json(&m)})),
            Err(_) => o.line(&json!({"ev": "Panic", "vec": jv, "other": jo})),
        }
    }
    let lines = o.finish();
    println!("{}", json!({"kind": "merge-trace", "events": lines}));
}
