//! seeded random documents (beyond what TLC can enumerate): larger trees, richer names, hostile bytes

use crate::util::Rng;

#[derive(Clone)]
pub struct GenCfg {
    pub names: Vec<String>,
    pub attrs: Vec<String>,
    pub max_depth: usize,
    pub max_kids: usize,
    /// probability (in 1/100) of character data in an element
    pub text_pct: usize,
    /// only leaf elements carry non-whitespace text (data-oriented documents)
    pub data_oriented: bool,
    pub pretty: bool,
    pub decorate: bool,
    /// repeated children are kept adjacent
    pub adjacent_repeats: bool,
}

pub const PLAIN: &[&str] = &["a", "b", "c", "d", "item", "name"];
pub const RICH: &[&str] = &[
    "a", "b", "Item", "item", "type", "ns:a", "x:item", "a-b", "a.b", "a_b", "AB", "Foo", "foo", "FOO", "self", "Self",
    "Type", "крипта", "é", "ЦЕНА", "ÉÜ", "String", "TotalPrice", "Total", "Price", "loop", "match", "x1", "text", "text_content",
];
pub const ATTRS: &[&str] = &["p", "q", "id", "type", "xmlns:n", "n:q", "x-y", "Id", "text", "name", "xml:lang", "x:r", "xmlnsx:s"];

impl GenCfg {
    pub fn plain() -> GenCfg {
        GenCfg {
            names: PLAIN.iter().map(|s| s.to_string()).collect(),
            attrs: ATTRS[..4].iter().map(|s| s.to_string()).collect(),
            max_depth: 4,
            max_kids: 4,
            text_pct: 30,
            data_oriented: false,
            pretty: false,
            decorate: true,
            adjacent_repeats: false,
        }
    }
    /// scale instead of small scope: many distinct names in one element / many occurrences / deep nesting / long names
    pub fn scaled(r: &mut Rng) -> GenCfg {
        let mut g = GenCfg::plain();
        match r.below(5) {
            0 => {
                g.names = (0..18).map(|i| format!("k{}", (b'a' + i as u8) as char)).collect();
                g.attrs = (0..14).map(|i| format!("at{}", (b'a' + i as u8) as char)).collect();
                g.max_kids = 18;
                g.max_depth = 2;
            }
            4 => {
                // more distinct children / attributes than a machine word has bits (9, 17, 33, 65, 130: one past u8 .. u128)
                let w = [9usize, 17, 33, 65, 130][r.below(5)];
                g.names = (0..w + 6).map(|i| format!("c{:03}", i)).collect();
                g.attrs = (0..(w / 2).min(40)).map(|i| format!("a{:03}", i)).collect();
                g.max_kids = w + 12;
                g.max_depth = 2;
                g.text_pct = 10;
            }
            1 => {
                g.names = vec!["a".into(), "b".into()];
                g.max_kids = 30;
                g.max_depth = 2;
            }
            2 => {
                g.names = vec!["a".into(), "b".into(), "c".into()];
                g.max_kids = 2;
                g.max_depth = 12;
            }
            _ => {
                g.names = vec!["a_rather_long_element_name_that_goes_on_and_on_1".into(), "AnotherQuiteLongElementNameInCamelCaseForGoodMeasure".into(), "x".into()];
                g.attrs = vec!["an-attribute-with-a-long-hyphenated-name".into(), "p".into()];
            }
        }
        g
    }
    pub fn rich() -> GenCfg {
        let mut g = GenCfg {
            names: RICH.iter().map(|s| s.to_string()).collect(),
            attrs: ATTRS.iter().map(|s| s.to_string()).collect(),
            ..GenCfg::plain()
        };
        // constants of the code under test that can be XML names (see checklib/common.py harvest_literals)
        for l in literals().iter().filter(|l| is_xml_name(l)) {
            if !g.names.contains(l) {
                g.names.push(l.clone());
            }
            if !g.attrs.contains(l) && !l.starts_with("xmlns") {
                g.attrs.push(l.clone());
            }
        }
        g
    }
}

/// the literals harvested from the source under test (file named by VERIF_LITERALS, one per line)
pub fn literals() -> &'static Vec<String> {
    static L: std::sync::OnceLock<Vec<String>> = std::sync::OnceLock::new();
    L.get_or_init(|| std::env::var("VERIF_LITERALS").ok().and_then(|p| std::fs::read_to_string(p).ok())
        .map(|t| t.lines().filter(|l| !l.is_empty()).map(|l| l.to_string()).collect()).unwrap_or_default())
}

pub fn is_xml_name(s: &str) -> bool {
    let mut c = s.chars();
    matches!(c.next(), Some(f) if f.is_ascii_alphabetic() || f == '_')
        && s.chars().all(|x| x.is_ascii_alphanumeric() || matches!(x, '_' | '-' | '.' | ':'))
        && s.matches(':').count() <= 1 && !s.ends_with(':') && !s.starts_with("xml")
}

fn decoration(r: &mut Rng, out: &mut Vec<u8>) {
    match r.below(8) {
        4 => out.extend_from_slice(b"<?xml-stylesheet type=\"text/xsl\" href=\"a.xsl\"?>"),
        5 => out.extend_from_slice(b"<!-- a - b -> c -->"),
        6 => out.extend_from_slice(b"<!---->"),
        7 => out.extend_from_slice(b"<?x?>"),
        0 => out.extend_from_slice(b"<!-- c -->"),
        1 => out.extend_from_slice(b"<?pi some data?>"),
        2 => out.extend_from_slice(b"<!--x--><!--y-->"),
        _ => out.extend_from_slice(b"<?target?>"),
    }
}

fn text(r: &mut Rng, out: &mut Vec<u8>, n: &mut usize, entities: bool) {
    *n += 1;
    if entities && r.chance(1, 6) {
        // character data that consists of (or contains) references the reader does not resolve: still character data
        match r.below(5) {
            0 => out.extend_from_slice(b"&nbsp;"),
            1 => out.extend_from_slice(format!("AT&T t{:03}", n).as_bytes()),
            // numeric character references, a zero-width joiner and a right-to-left mark, Windows line ends
            3 => out.extend_from_slice(format!("t{:03} &#233;&#x20AC;&#x1F600; \u{200d}\u{200f}", n).as_bytes()),
            4 => out.extend_from_slice(format!("t{:03}\r\nsecond line\r\n", n).as_bytes()),
            _ => out.extend_from_slice(b"&co;&unknown;"),
        }
        return;
    }
    if r.chance(1, 9) {
        // whitespace-only character data is character data too (the default reader does not trim)
        out.extend_from_slice([&b" "[..], b"\n  ", b"\t"][r.below(3)]);
        return;
    }
    if r.chance(1, 14) {
        // an empty CDATA section is a CDATA node: character data as far as the structure goes
        out.extend_from_slice(b"<![CDATA[]]>");
        return;
    }
    if r.chance(1, 16) {
        // character data that looks like markup
        out.extend_from_slice(format!("<![CDATA[<a b=\"c{:03}\">not markup</a><!-- nor this -->]]>", n).as_bytes());
        return;
    }
    match r.below(4) {
        0 => out.extend_from_slice(format!("<![CDATA[c{:03}]]>", n).as_bytes()),
        1 => out.extend_from_slice(format!("t{:03} &amp; more", n).as_bytes()),
        _ => out.extend_from_slice(format!("t{:03}", n).as_bytes()),
    }
}

fn element(r: &mut Rng, g: &GenCfg, name: &str, depth: usize, out: &mut Vec<u8>, n: &mut usize, budget: &mut usize) {
    let indent = |out: &mut Vec<u8>, d: usize| {
        if g.pretty {
            out.push(b'\n');
            for _ in 0..d {
                out.extend_from_slice(b"  ");
            }
        }
    };
    out.push(b'<');
    out.extend_from_slice(name.as_bytes());
    let mut attrs: Vec<&String> = g.attrs.iter().filter(|_| r.chance(1, 3)).collect();
    r.shuffle(&mut attrs);
    for a in attrs {
        *n += 1;
        // attribute values in every legal shape: other quotes, a `>` or a line break inside, surrounding blanks
        match r.below(12) {
            0 if !g.data_oriented && !literals().is_empty() && r.chance(1, 3) =>
                out.extend_from_slice(format!(" {}='{}'", a, literals()[*n % literals().len()].replace('\'', "")).as_bytes()),
            0 => out.extend_from_slice(format!(" {}='v{:03}'", a, n).as_bytes()),
            1 => out.extend_from_slice(format!(" {}=\"v{:03} > x\"", a, n).as_bytes()),
            2 => out.extend_from_slice(format!("\n  {} = \"v{:03}\"", a, n).as_bytes()),
            _ => out.extend_from_slice(format!(" {}=\"v{:03}\"", a, n).as_bytes()),
        }
    }
    let nk = if depth >= g.max_depth || *budget == 0 { 0 } else { r.below(g.max_kids + 1) };
    let want_text = r.chance(g.text_pct, 100);
    if nk == 0 && !want_text {
        if r.chance(1, 2) {
            out.extend_from_slice(b"/>");
        } else {
            out.extend_from_slice(format!("></{}>", name).as_bytes());
        }
        return;
    }
    out.push(b'>');
    // children names, with repetitions
    let mut kids: Vec<String> = Vec::new();
    for _ in 0..nk {
        if !kids.is_empty() && r.chance(1, 3) {
            let k = r.pick(&kids).clone();
            kids.push(k);
        } else {
            kids.push(r.pick(&g.names).clone());
        }
    }
    if g.adjacent_repeats {
        let mut grouped: Vec<String> = Vec::new();
        for k in &kids {
            if !grouped.contains(k) {
                let cnt = kids.iter().filter(|x| *x == k).count();
                for _ in 0..cnt {
                    grouped.push(k.clone());
                }
            }
        }
        kids = grouped;
    }
    let mixed_ok = !g.data_oriented || kids.is_empty();
    if want_text && mixed_ok && r.chance(1, 2) {
        text(r, out, n, !g.data_oriented);
    }
    for (i, k) in kids.iter().enumerate() {
        if *budget == 0 {
            break;
        }
        *budget -= 1;
        indent(out, depth + 1);
        if g.decorate && r.chance(1, 12) {
            decoration(r, out);
        }
        element(r, g, k, depth + 1, out, n, budget);
        if want_text && mixed_ok && i + 1 < kids.len() && r.chance(1, 6) {
            text(r, out, n, !g.data_oriented);
        }
    }
    if want_text && mixed_ok && (kids.is_empty() || r.chance(1, 2)) {
        text(r, out, n, !g.data_oriented);
    }
    if !kids.is_empty() {
        indent(out, depth);
    }
    out.extend_from_slice(format!("</{}>", name).as_bytes());
}

/// one well-formed document with the given document element
pub fn document(r: &mut Rng, g: &GenCfg, root: &str, max_elems: usize) -> Vec<u8> {
    let mut out = Vec::new();
    let mut n = 0;
    if g.decorate {
        if r.chance(1, 3) {
            out.extend_from_slice(b"<?xml version=\"1.0\" encoding=\"UTF-8\"?>");
            if g.pretty {
                out.push(b'\n');
            }
        }
        if r.chance(1, 8) {
            out.extend_from_slice(format!("<!DOCTYPE {}>", root).as_bytes());
        }
        if r.chance(1, 6) {
            decoration(r, &mut out);
        }
    }
    let mut budget = max_elems;
    element(r, g, root, 1, &mut out, &mut n, &mut budget);
    if g.decorate && r.chance(1, 8) {
        decoration(r, &mut out);
    }
    if g.pretty {
        out.push(b'\n');
    }
    out
}

/// a document without any element
pub fn elementless(r: &mut Rng) -> Vec<u8> {
    match r.below(7) {
        0 => Vec::new(),
        5 => b"just some text, no markup at all".to_vec(),
        6 => b"<?xml version=\"1.0\"?>\n<!DOCTYPE r [<!ENTITY e \"v\">]>\n<?pi x?>\n".to_vec(),
        1 => b"<!-- only a comment -->".to_vec(),
        2 => b"<?xml version=\"1.0\"?>".to_vec(),
        3 => b"\n  \n".to_vec(),
        _ => b"<?xml version=\"1.0\"?><!DOCTYPE r><!-- c -->".to_vec(),
    }
}

/// damage a document at byte level
pub fn damage(r: &mut Rng, doc: &[u8]) -> Vec<u8> {
    let mut d = doc.to_vec();
    const SPECIAL: &[u8] = b"<>/\"'=&;!?[]- ";
    let times = 1 + r.below(3);
    for _ in 0..times {
        if d.is_empty() {
            d.push(*r.pick(SPECIAL));
            continue;
        }
        let i = r.below(d.len());
        match r.below(10) {
            9 => {
                // write an attribute of some start tag a second time (the reader reports a duplicated attribute)
                if let Some(x) = duplicate_attribute(r, &d) {
                    d = x;
                }
            }
            0 => d.truncate(i),
            1 => d[i] ^= 1 << r.below(8),
            2 => d.insert(i, *r.pick(SPECIAL)),
            3 => {
                d.remove(i);
            }
            4 => d[i] = *r.pick(SPECIAL),
            5 => d.insert(i, 0xff),
            6 => {
                let j = r.below(d.len());
                let (a, b) = (i.min(j), i.max(j));
                let piece: Vec<u8> = d[a..b].to_vec();
                let k = r.below(d.len());
                for (o, x) in piece.into_iter().enumerate() {
                    d.insert((k + o).min(d.len()), x);
                }
            }
            7 => d[i] = r.below(256) as u8,
            _ => {
                let j = (i + 1 + r.below(8)).min(d.len());
                d.drain(i..j);
            }
        }
    }
    d
}

/// `<e a="1" b="2">` -> `<e a="1" b="2" a="dup">` for a random start tag that has attributes
fn duplicate_attribute(r: &mut Rng, d: &[u8]) -> Option<Vec<u8>> {
    let mut tags: Vec<(usize, usize)> = Vec::new(); // (position of the attribute name, position of the closing > or />)
    let mut i = 0;
    while i < d.len() {
        if d[i] == b'<' && i + 1 < d.len() && (d[i + 1].is_ascii_alphabetic() || d[i + 1] == b'_') {
            let mut j = i + 1;
            let mut quote: Option<u8> = None;
            let mut first_attr: Option<usize> = None;
            while j < d.len() {
                match (quote, d[j]) {
                    (Some(q), c) if c == q => quote = None,
                    (Some(_), _) => {}
                    (None, b'"') | (None, b'\'') => quote = Some(d[j]),
                    (None, b'>') => break,
                    (None, c) if c.is_ascii_whitespace() && first_attr.is_none() && j + 1 < d.len() && !d[j + 1].is_ascii_whitespace()
                        && d[j + 1] != b'>' && d[j + 1] != b'/' => first_attr = Some(j + 1),
                    _ => {}
                }
                j += 1;
            }
            if let (Some(a), true) = (first_attr, j < d.len()) {
                let end = if j > 0 && d[j - 1] == b'/' { j - 1 } else { j };
                tags.push((a, end));
            }
            i = j;
        }
        i += 1;
    }
    if tags.is_empty() {
        return None;
    }
    let (a, end) = tags[r.below(tags.len())];
    let name_end = (a..end).find(|k| d[*k] == b'=' || d[*k].is_ascii_whitespace())?;
    let mut out = d[..end].to_vec();
    out.push(b' ');
    out.extend_from_slice(&d[a..name_end]);
    out.extend_from_slice(b"=\"dup\"");
    out.extend_from_slice(&d[end..]);
    Some(out)
}

/// Documents for the struct-name hints: the same struct-bearing element `d` at the end of three different ancestor
/// paths below the root (paths drawn from a small pool so that nearest parents coincide while grandparents differ, in
/// every document order). `which` enumerates the ordered choices.
pub fn hint_paths_doc(which: usize) -> Vec<u8> {
    const PATHS: &[&[&str]] = &[&["b"], &["c"], &["e", "b"], &["e", "c"], &["f", "b"], &["b", "c"], &["e", "f", "b"]];
    let n = PATHS.len();
    let (i, j, k) = (which % n, (which / n) % n, (which / (n * n)) % n);
    let mut chosen: Vec<&[&str]> = Vec::new();
    for x in [i, j, k] {
        if !chosen.contains(&PATHS[x]) {
            chosen.push(PATHS[x]);
        }
    }
    // a trie in first-appearance order
    #[derive(Default)]
    struct T { kids: Vec<(String, T)>, leaf: bool }
    let mut root = T::default();
    for p in &chosen {
        let mut cur = &mut root;
        for seg in p.iter() {
            let pos = match cur.kids.iter().position(|(n, _)| n == seg) {
                Some(x) => x,
                None => { cur.kids.push((seg.to_string(), T::default())); cur.kids.len() - 1 }
            };
            cur = &mut cur.kids[pos].1;
        }
        cur.leaf = true;
    }
    fn ser(t: &T, out: &mut String, n: &mut usize) {
        if t.leaf {
            *n += 1;
            out.push_str(&format!("<d><x>t{:03}</x></d>", n));
        }
        for (name, k) in &t.kids {
            out.push_str(&format!("<{}>", name));
            ser(k, out, n);
            out.push_str(&format!("</{}>", name));
        }
    }
    let mut out = String::from("<a>");
    let mut cnt = 0;
    ser(&root, &mut out, &mut cnt);
    out.push_str("</a>");
    out.into_bytes()
}

/// Sizes at which a fixed-width counter, bit set, recursion guard or small-buffer optimisation would change its
/// behaviour: one below, at, and one or two above the powers of two up to 256 (plus a few larger ones).
pub const BOUNDARIES: &[usize] = &[15, 16, 17, 31, 32, 33, 63, 64, 65, 66, 100, 127, 128, 129, 255, 256, 257, 258, 300];

/// the kinds of boundary sessions
pub const BOUNDARY_KINDS: usize = 7;

/// lengths of character data around which a buffer, a length limit or a chunk boundary may sit
pub const LONG_TEXT: &[usize] = &[255, 256, 257, 1023, 1024, 1025, 4095, 4096, 4097, 8191, 8192, 8193, 65535, 65536, 65537];

/// One session (1-2 documents) built around a boundary size n: a chain n levels deep (every level its own name, or
/// three names in rotation), n distinct children, n attributes, a child repeated n times, a name n characters long.
/// `kind` and `n` are chosen by the caller so that a run can cover all of them.
pub fn boundary_session(r: &mut Rng, kind: usize, n: usize) -> Vec<Vec<u8>> {
    let chain = |names: &dyn Fn(usize) -> String, depth: usize, leaf: &str| -> Vec<u8> {
        let mut out = String::new();
        for i in 1..depth {
            out.push_str(&format!("<{}>", names(i)));
        }
        out.push_str(&leaf.replace("LEAF", &names(depth)));
        for i in (1..depth).rev() {
            out.push_str(&format!("</{}>", names(i)));
        }
        out.into_bytes()
    };
    let leaf = ["<LEAF/>", "<LEAF></LEAF>", "<LEAF>t001</LEAF>", "<LEAF p=\"v001\"/>"][r.below(4)];
    match kind % BOUNDARY_KINDS {
        0 => {
            // every level has its own name; the second document is one level shallower or deeper
            let unique = |i: usize| format!("l{}", i);
            let mut docs = vec![chain(&unique, n, leaf)];
            if r.chance(1, 2) {
                docs.push(chain(&unique, if r.chance(1, 2) { n + 1 } else { n - 1 }, "<LEAF/>"));
            }
            docs
        }
        1 => {
            let rot = |i: usize| if i == 1 { "r".to_string() } else { ["a", "b", "c"][i % 3].to_string() };
            vec![chain(&rot, n, leaf)]
        }
        2 => {
            let kids: String = (0..n).map(|i| format!("<c{:03}/>", i)).collect();
            let fewer: String = (0..n).filter(|i| i % 2 == 0).map(|i| format!("<c{:03}/>", i)).collect();
            let mut docs = vec![format!("<r>{}</r>", kids).into_bytes()];
            if r.chance(1, 2) {
                docs.push(format!("<r>{}<extra/></r>", fewer).into_bytes());
            }
            docs
        }
        3 => {
            let attrs: String = (0..n).map(|i| format!(" a{:03}=\"v{:03}\"", i, i)).collect();
            let fewer: String = (0..n).filter(|i| i % 3 != 1).map(|i| format!(" a{:03}=\"v{:03}\"", i, i)).collect();
            vec![format!("<r><e{}/><e{}/></r>", attrs, fewer).into_bytes()]
        }
        4 => {
            let reps: String = (0..n).map(|i| if i % 2 == 0 { "<k/>".to_string() } else { format!("<k>t{:03}</k>", i) }).collect();
            vec![format!("<r><g>{}</g><g><k/></g></r>", reps).into_bytes()]
        }
        6 => {
            // character data of a boundary length: a multi-byte character straddling the boundary (valid), or a byte that
            // is not UTF-8 behind it (the verdict is the independent reader pass's business), as text or as CDATA
            let len = LONG_TEXT[(n + r.below(LONG_TEXT.len())) % LONG_TEXT.len()];
            let mut body: Vec<u8> = (0..len - 1).map(|i| b'a' + (i % 26) as u8).collect();
            match r.below(4) {
                0 => body.extend_from_slice("\u{e9}tail".as_bytes()),
                1 => body.extend_from_slice("x\u{20ac}\u{1F600}".as_bytes()),
                2 => body.extend_from_slice(b"xy\xfftail"),
                _ => body.extend_from_slice(b"x\xe2\x82"),
            }
            let mut out = b"<r><a>".to_vec();
            if r.chance(1, 2) {
                out.extend_from_slice(b"<![CDATA[");
                out.extend_from_slice(&body);
                out.extend_from_slice(b"]]>");
            } else {
                out.extend_from_slice(&body);
            }
            out.extend_from_slice(b"</a><b/></r>");
            vec![out]
        }
        _ => {
            let long: String = (0..n).map(|i| if i % 9 == 8 { '_' } else { (b'a' + (i % 26) as u8) as char }).collect();
            let upper: String = long.to_uppercase();
            vec![format!("<r {0}=\"v001\"><{0}><x/></{0}><{1}>t002</{1}></r>", long, upper).into_bytes()]
        }
    }
}

/// constants of the code under test as element / attribute names (two occurrences of the element so that the optional
/// and repeated decisions are exercised), in the shape of the specification's cases
pub fn literal_event_cases() -> Vec<serde_json::Value> {
    use serde_json::json;
    let names: Vec<&String> = literals().iter().filter(|l| is_xml_name(l)).collect();
    let mut out = Vec::new();
    for (i, n) in names.iter().enumerate() {
        let other = names[(i + 1) % names.len()];
        let ev = |kind: &str, name: &str, attrs: Vec<&str>| json!({"kind": kind, "name": name, "attrs": attrs, "fault": "none"});
        let evs = vec![ev("Start", "r", vec![]), ev("Start", n, vec![other.as_str()]), ev("Text", "", vec![]), ev("End", "", vec![]),
                       ev("Empty", n, vec![n.as_str()]), ev("Empty", "x", vec![n.as_str(), other.as_str()]), ev("End", "", vec![]), ev("Eof", "", vec![])];
        if n.as_str() != other.as_str() && !n.starts_with("xmlns") && !other.starts_with("xmlns") {
            out.push(json!({"indomain": true, "expect": {"st": "ok"}, "calls": [{"op": "parse", "events": evs}], "literal": n}));
        }
    }
    out
}

/// the boundary chains as event sequences in the shape of the specification's cases (for the rewrite relations)
pub fn boundary_event_cases() -> Vec<serde_json::Value> {
    use serde_json::json;
    let ev = |kind: &str, name: &str| json!({"kind": kind, "name": name, "attrs": [], "fault": "none"});
    let mut out = Vec::new();
    for &n in BOUNDARIES {
        for unique in [true, false] {
            let name = |i: usize| if unique { format!("l{}", i) } else if i == 1 { "r".to_string() } else { ["a", "b", "c"][i % 3].to_string() };
            let mut evs = Vec::new();
            for i in 1..n {
                evs.push(ev("Start", &name(i)));
            }
            evs.push(ev("Empty", &name(n)));
            for _ in 1..n {
                evs.push(ev("End", ""));
            }
            evs.push(ev("Eof", ""));
            out.push(json!({"indomain": true, "expect": {"st": "ok"}, "calls": [{"op": "parse", "events": evs}], "boundary": n}));
        }
    }
    out
}
