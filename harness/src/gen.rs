//! seeded random documents (beyond what TLC can enumerate): larger trees, richer names, hostile bytes

use crate::util::Rng;

#[derive(Clone)]
pub struct GenCfg {
    pub names: Vec<String>,
    pub attrs: Vec<String>,
    pub max_depth: usize,
    pub max_kids: usize,
    /// probability (in 1/100) of character data in an element
    pub text_pct: usize,
    /// only leaf elements carry non-whitespace text (data-oriented documents)
    pub data_oriented: bool,
    pub pretty: bool,
    pub decorate: bool,
    /// repeated children are kept adjacent
    pub adjacent_repeats: bool,
}

pub const PLAIN: &[&str] = &["a", "b", "c", "d", "item", "name"];
pub const RICH: &[&str] = &[
    "a", "b", "Item", "item", "type", "ns:a", "x:item", "a-b", "a.b", "a_b", "AB", "Foo", "foo", "FOO", "self", "Self",
    "Type", "крипта", "é", "String", "TotalPrice", "Total", "Price", "loop", "match", "x1", "text", "text_content",
];
pub const ATTRS: &[&str] = &["p", "q", "id", "type", "xmlns:n", "n:q", "x-y", "Id", "text", "name", "xml:lang", "x:r", "xmlnsx:s"];

impl GenCfg {
    pub fn plain() -> GenCfg {
        GenCfg {
            names: PLAIN.iter().map(|s| s.to_string()).collect(),
            attrs: ATTRS[..4].iter().map(|s| s.to_string()).collect(),
            max_depth: 4,
            max_kids: 4,
            text_pct: 30,
            data_oriented: false,
            pretty: false,
            decorate: true,
            adjacent_repeats: false,
        }
    }
    /// scale instead of small scope: many distinct names in one element / many occurrences / deep nesting / long names
    pub fn scaled(r: &mut Rng) -> GenCfg {
        let mut g = GenCfg::plain();
        match r.below(5) {
            0 => {
                g.names = (0..18).map(|i| format!("k{}", (b'a' + i as u8) as char)).collect();
                g.attrs = (0..14).map(|i| format!("at{}", (b'a' + i as u8) as char)).collect();
                g.max_kids = 18;
                g.max_depth = 2;
            }
            4 => {
                // more distinct children / attributes than a machine word has bits (9, 17, 33, 65, 130: one past u8 .. u128)
                let w = [9usize, 17, 33, 65, 130][r.below(5)];
                g.names = (0..w + 6).map(|i| format!("c{:03}", i)).collect();
                g.attrs = (0..(w / 2).min(40)).map(|i| format!("a{:03}", i)).collect();
                g.max_kids = w + 12;
                g.max_depth = 2;
                g.text_pct = 10;
            }
            1 => {
                g.names = vec!["a".into(), "b".into()];
                g.max_kids = 30;
                g.max_depth = 2;
            }
            2 => {
                g.names = vec!["a".into(), "b".into(), "c".into()];
                g.max_kids = 2;
                g.max_depth = 12;
            }
            _ => {
                g.names = vec!["a_rather_long_element_name_that_goes_on_and_on_1".into(), "AnotherQuiteLongElementNameInCamelCaseForGoodMeasure".into(), "x".into()];
                g.attrs = vec!["an-attribute-with-a-long-hyphenated-name".into(), "p".into()];
            }
        }
        g
    }
    pub fn rich() -> GenCfg {
        GenCfg {
            names: RICH.iter().map(|s| s.to_string()).collect(),
            attrs: ATTRS.iter().map(|s| s.to_string()).collect(),
            ..GenCfg::plain()
        }
    }
}

fn decoration(r: &mut Rng, out: &mut Vec<u8>) {
    match r.below(8) {
        4 => out.extend_from_slice(b"<?xml-stylesheet type=\"text/xsl\" href=\"a.xsl\"?>"),
        5 => out.extend_from_slice(b"<!-- a - b -> c -->"),
        6 => out.extend_from_slice(b"<!---->"),
        7 => out.extend_from_slice(b"<?x?>"),
        0 => out.extend_from_slice(b"<!-- c -->"),
        1 => out.extend_from_slice(b"<?pi some data?>"),
        2 => out.extend_from_slice(b"<!--x--><!--y-->"),
        _ => out.extend_from_slice(b"<?target?>"),
    }
}

fn text(r: &mut Rng, out: &mut Vec<u8>, n: &mut usize, entities: bool) {
    *n += 1;
    if entities && r.chance(1, 6) {
        // character data that consists of (or contains) references the reader does not resolve: still character data
        match r.below(3) {
            0 => out.extend_from_slice(b"&nbsp;"),
            1 => out.extend_from_slice(format!("AT&T t{:03}", n).as_bytes()),
            _ => out.extend_from_slice(b"&co;&unknown;"),
        }
        return;
    }
    if r.chance(1, 9) {
        // whitespace-only character data is character data too (the default reader does not trim)
        out.extend_from_slice([&b" "[..], b"\n  ", b"\t"][r.below(3)]);
        return;
    }
    match r.below(4) {
        0 => out.extend_from_slice(format!("<![CDATA[c{:03}]]>", n).as_bytes()),
        1 => out.extend_from_slice(format!("t{:03} &amp; more", n).as_bytes()),
        _ => out.extend_from_slice(format!("t{:03}", n).as_bytes()),
    }
}

fn element(r: &mut Rng, g: &GenCfg, name: &str, depth: usize, out: &mut Vec<u8>, n: &mut usize, budget: &mut usize) {
    let indent = |out: &mut Vec<u8>, d: usize| {
        if g.pretty {
            out.push(b'\n');
            for _ in 0..d {
                out.extend_from_slice(b"  ");
            }
        }
    };
    out.push(b'<');
    out.extend_from_slice(name.as_bytes());
    let mut attrs: Vec<&String> = g.attrs.iter().filter(|_| r.chance(1, 3)).collect();
    r.shuffle(&mut attrs);
    for a in attrs {
        *n += 1;
        // attribute values in every legal shape: other quotes, a `>` or a line break inside, surrounding blanks
        match r.below(12) {
            0 => out.extend_from_slice(format!(" {}='v{:03}'", a, n).as_bytes()),
            1 => out.extend_from_slice(format!(" {}=\"v{:03} > x\"", a, n).as_bytes()),
            2 => out.extend_from_slice(format!("\n  {} = \"v{:03}\"", a, n).as_bytes()),
            _ => out.extend_from_slice(format!(" {}=\"v{:03}\"", a, n).as_bytes()),
        }
    }
    let nk = if depth >= g.max_depth || *budget == 0 { 0 } else { r.below(g.max_kids + 1) };
    let want_text = r.chance(g.text_pct, 100);
    if nk == 0 && !want_text {
        if r.chance(1, 2) {
            out.extend_from_slice(b"/>");
        } else {
            out.extend_from_slice(format!("></{}>", name).as_bytes());
        }
        return;
    }
    out.push(b'>');
    // children names, with repetitions
    let mut kids: Vec<String> = Vec::new();
    for _ in 0..nk {
        if !kids.is_empty() && r.chance(1, 3) {
            let k = r.pick(&kids).clone();
            kids.push(k);
        } else {
            kids.push(r.pick(&g.names).clone());
        }
    }
    if g.adjacent_repeats {
        let mut grouped: Vec<String> = Vec::new();
        for k in &kids {
            if !grouped.contains(k) {
                let cnt = kids.iter().filter(|x| *x == k).count();
                for _ in 0..cnt {
                    grouped.push(k.clone());
                }
            }
        }
        kids = grouped;
    }
    let mixed_ok = !g.data_oriented || kids.is_empty();
    if want_text && mixed_ok && r.chance(1, 2) {
        text(r, out, n, !g.data_oriented);
    }
    for (i, k) in kids.iter().enumerate() {
        if *budget == 0 {
            break;
        }
        *budget -= 1;
        indent(out, depth + 1);
        if g.decorate && r.chance(1, 12) {
            decoration(r, out);
        }
        element(r, g, k, depth + 1, out, n, budget);
        if want_text && mixed_ok && i + 1 < kids.len() && r.chance(1, 6) {
            text(r, out, n, !g.data_oriented);
        }
    }
    if want_text && mixed_ok && (kids.is_empty() || r.chance(1, 2)) {
        text(r, out, n, !g.data_oriented);
    }
    if !kids.is_empty() {
        indent(out, depth);
    }
    out.extend_from_slice(format!("</{}>", name).as_bytes());
}

/// one well-formed document with the given document element
pub fn document(r: &mut Rng, g: &GenCfg, root: &str, max_elems: usize) -> Vec<u8> {
    let mut out = Vec::new();
    let mut n = 0;
    if g.decorate {
        if r.chance(1, 3) {
            out.extend_from_slice(b"<?xml version=\"1.0\" encoding=\"UTF-8\"?>");
            if g.pretty {
                out.push(b'\n');
            }
        }
        if r.chance(1, 8) {
            out.extend_from_slice(format!("<!DOCTYPE {}>", root).as_bytes());
        }
        if r.chance(1, 6) {
            decoration(r, &mut out);
        }
    }
    let mut budget = max_elems;
    element(r, g, root, 1, &mut out, &mut n, &mut budget);
    if g.decorate && r.chance(1, 8) {
        decoration(r, &mut out);
    }
    if g.pretty {
        out.push(b'\n');
    }
    out
}

/// a document without any element
pub fn elementless(r: &mut Rng) -> Vec<u8> {
    match r.below(7) {
        0 => Vec::new(),
        5 => b"just some text, no markup at all".to_vec(),
        6 => b"<?xml version=\"1.0\"?>\n<!DOCTYPE r [<!ENTITY e \"v\">]>\n<?pi x?>\n".to_vec(),
        1 => b"<!-- only a comment -->".to_vec(),
        2 => b"<?xml version=\"1.0\"?>".to_vec(),
        3 => b"\n  \n".to_vec(),
        _ => b"<?xml version=\"1.0\"?><!DOCTYPE r><!-- c -->".to_vec(),
    }
}

/// damage a document at byte level
pub fn damage(r: &mut Rng, doc: &[u8]) -> Vec<u8> {
    let mut d = doc.to_vec();
    const SPECIAL: &[u8] = b"<>/\"'=&;!?[]- ";
    let times = 1 + r.below(3);
    for _ in 0..times {
        if d.is_empty() {
            d.push(*r.pick(SPECIAL));
            continue;
        }
        let i = r.below(d.len());
        match r.below(9) {
            0 => d.truncate(i),
            1 => d[i] ^= 1 << r.below(8),
            2 => d.insert(i, *r.pick(SPECIAL)),
            3 => {
                d.remove(i);
            }
            4 => d[i] = *r.pick(SPECIAL),
            5 => d.insert(i, 0xff),
            6 => {
                let j = r.below(d.len());
                let (a, b) = (i.min(j), i.max(j));
                let piece: Vec<u8> = d[a..b].to_vec();
                let k = r.below(d.len());
                for (o, x) in piece.into_iter().enumerate() {
                    d.insert((k + o).min(d.len()), x);
                }
            }
            7 => d[i] = r.below(256) as u8,
            _ => {
                let j = (i + 1 + r.below(8)).min(d.len());
                d.drain(i..j);
            }
        }
    }
    d
}
