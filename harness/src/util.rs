//! small helpers shared by all sub-commands: deterministic PRNG, JSON conversion of views, output files

use serde_json::{json, Value};
use std::io::Write;
use xml_schema_generator::verif::View;

/// splitmix64 — all randomness of the harness derives from VERIF_SEED through this
#[derive(Clone)]
pub struct Rng(pub u64);

impl Rng {
    pub fn new(seed: u64) -> Self {
        Rng(seed ^ 0x9E37_79B9_7F4A_7C15)
    }
    pub fn next(&mut self) -> u64 {
        self.0 = self.0.wrapping_add(0x9E37_79B9_7F4A_7C15);
        let mut z = self.0;
        z = (z ^ (z >> 30)).wrapping_mul(0xBF58_476D_1CE4_E5B9);
        z = (z ^ (z >> 27)).wrapping_mul(0x94D0_49BB_1331_11EB);
        z ^ (z >> 31)
    }
    /// uniform in 0..n (n > 0)
    pub fn below(&mut self, n: usize) -> usize {
        (self.next() % (n as u64)) as usize
    }
    pub fn range(&mut self, lo: usize, hi: usize) -> usize {
        lo + self.below(hi - lo + 1)
    }
    pub fn chance(&mut self, num: usize, den: usize) -> bool {
        self.below(den) < num
    }
    pub fn pick<'a, T>(&mut self, s: &'a [T]) -> &'a T {
        &s[self.below(s.len())]
    }
    pub fn shuffle<T>(&mut self, s: &mut [T]) {
        for i in (1..s.len()).rev() {
            let j = self.below(i + 1);
            s.swap(i, j);
        }
    }
}

pub fn tag(m: bool) -> &'static str {
    if m {
        "M"
    } else {
        "O"
    }
}

/// the JSON form of a View that the TLA+ specs use for an element record (ElementOps.tla)
pub fn view_json(v: &View) -> Value {
    json!({
        "name": v.name,
        "text": v.text,
        "sa": v.standalone,
        "cnt": v.count,
        "pos": match v.position { Some(p) => p as i64, None => -1 },
        "attrs": v.attributes.iter().map(|(m, a)| json!({"t": tag(*m), "v": a})).collect::<Vec<_>>(),
        "ch": v.children.iter().map(|(m, c)| json!({"t": tag(*m), "e": view_json(c)})).collect::<Vec<_>>(),
    })
}

pub struct Out {
    w: std::io::BufWriter<std::fs::File>,
    pub lines: usize,
}

impl Out {
    pub fn create(path: &str) -> Out {
        if let Some(p) = std::path::Path::new(path).parent() {
            let _ = std::fs::create_dir_all(p);
        }
        Out {
            w: std::io::BufWriter::new(std::fs::File::create(path).expect("create output file")),
            lines: 0,
        }
    }
    pub fn line(&mut self, v: &Value) {
        serde_json::to_writer(&mut self.w, v).unwrap();
        self.w.write_all(b"\n").unwrap();
        self.lines += 1;
    }
    pub fn finish(mut self) -> usize {
        self.w.flush().unwrap();
        self.lines
    }
}

pub fn read_lines(path: &str) -> Vec<Value> {
    let s = std::fs::read_to_string(path).unwrap_or_else(|e| panic!("read {}: {}", path, e));
    s.lines()
        .filter(|l| !l.trim().is_empty())
        .map(|l| serde_json::from_str(l).unwrap_or_else(|e| panic!("bad json line in {}: {}: {}", path, e, l)))
        .collect()
}

/// command line: --key value pairs after the sub-command
pub struct Args(pub Vec<String>);

impl Args {
    pub fn get(&self, key: &str) -> Option<String> {
        let k = format!("--{}", key);
        self.0.iter().position(|a| *a == k).and_then(|i| self.0.get(i + 1).cloned())
    }
    pub fn req(&self, key: &str) -> String {
        self.get(key).unwrap_or_else(|| {
            eprintln!("missing --{}", key);
            std::process::exit(2)
        })
    }
    pub fn num(&self, key: &str, default: u64) -> u64 {
        self.get(key).map(|v| v.parse().expect("number")).unwrap_or(default)
    }
}

/// write a mismatch report: one JSON object per line in `path`, print the summary object on stdout
pub fn finish_report(kind: &str, cases: usize, mismatches: &[Value], path: Option<String>, extra: Value) {
    if let Some(p) = path {
        let mut o = Out::create(&p);
        for m in mismatches {
            o.line(m);
        }
        o.finish();
    }
    let mut summary = json!({"kind": kind, "cases": cases, "mismatches": mismatches.len()});
    if let (Some(s), Some(e)) = (summary.as_object_mut(), extra.as_object()) {
        for (k, v) in e {
            s.insert(k.clone(), v.clone());
        }
    }
    println!("{}", summary);
}

static PROBES: std::sync::atomic::AtomicU64 = std::sync::atomic::AtomicU64::new(0);

/// Rendering is an observation (`&self`): at intermediate points of every multi-step session (between parse and
/// extend, between construction operations) the tree is rendered with probability 1/2 (a fixed pseudo-random
/// schedule derived from VERIF_SEED; VERIF_PROBE=all / none overrides it) and the text thrown away. Anything a
/// rendering leaves behind in the tree (an interior cache) then meets the later steps, and shows in the renderings
/// that are judged.
pub fn probe_render(e: &xml_schema_generator::Element<String>) {
    static MODE: std::sync::OnceLock<(u8, u64)> = std::sync::OnceLock::new();
    let (mode, seed) = *MODE.get_or_init(|| {
        let m = match std::env::var("VERIF_PROBE").as_deref() {
            Ok("all") => 1,
            Ok("none") => 2,
            _ => 0,
        };
        (m, std::env::var("VERIF_SEED").ok().and_then(|s| s.parse().ok()).unwrap_or(0))
    });
    let n = PROBES.fetch_add(1, std::sync::atomic::Ordering::Relaxed);
    let go = match mode {
        1 => true,
        2 => false,
        _ => Rng::new(seed ^ n.wrapping_mul(0x9E37_79B9_7F4A_7C15)).chance(1, 2),
    };
    if go {
        let _ = std::panic::catch_unwind(std::panic::AssertUnwindSafe(|| e.to_serde_struct(&xml_schema_generator::Options::quick_xml_de())));
    }
}

/// A logger that formats every record and throws the text away: with it installed the arguments of the crate's
/// `log` macros are evaluated (without a logger they never are, which is how the repository's tests run).
struct Sink;
impl log::Log for Sink {
    fn enabled(&self, _: &log::Metadata) -> bool {
        true
    }
    fn log(&self, record: &log::Record) {
        use std::fmt::Write;
        let mut s = String::new();
        let _ = write!(s, "{}", record.args());
    }
    fn flush(&self) {}
}
static SINK: Sink = Sink;

pub fn install_logger() {
    let _ = log::set_logger(&SINK);
    log::set_max_level(log::LevelFilter::Off);
}

/// Logging is switched between Trace and Off at the points where probe renderings may happen (same schedule kind:
/// pseudo-random per opportunity, VERIF_PROBE=all means always on): a caller may or may not have a logger installed.
pub fn toggle_logging() {
    static N: std::sync::atomic::AtomicU64 = std::sync::atomic::AtomicU64::new(0);
    let n = N.fetch_add(1, std::sync::atomic::Ordering::Relaxed);
    let on = match std::env::var("VERIF_PROBE").as_deref() {
        Ok("all") => true,
        Ok("none") => false,
        _ => Rng::new(0x5EED ^ n.wrapping_mul(0x9E37_79B9_7F4A_7C15)).chance(1, 2),
    };
    log::set_max_level(if on { log::LevelFilter::Trace } else { log::LevelFilter::Off });
}
