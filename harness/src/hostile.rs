//! C07: arbitrary bytes through any buffered reader and any reader configuration must not panic, abort or hang.
//! Seeds are the byte serialisations of TLC-enumerated behaviours, the repository's own test documents and random
//! documents; every case runs under catch_unwind, the whole batch under the driver's wall-clock limit.

use crate::gen::*;
use crate::rewrite::Feed;
use crate::run::*;
use crate::util::*;
use crate::xmlser::{serialize_salted, ReaderCfg};
use serde_json::{json, Value};
use xml_schema_generator::{Options, SortBy};

const CORPUS: &[&str] = &[
    "<a b=\"c\">d</a>",
    "<a><b/><b/><c>x</c></a>",
    "<?xml version=\"1.0\" encoding=\"UTF-8\"?>\n<ns:Car xmlns:ns=\"u\" ns:id=\"1\"><ns:Locations><Location><Charge type=\"x\">1</Charge></Location></Locations><YdTax><Charge/></YdTax></ns:Car>",
    "<r><![CDATA[ x ]]><!-- c --><?pi d?><a type=\"t\" Type=\"u\">&amp;&lt;</a></r>",
    "<!DOCTYPE r [<!ENTITY e \"v\">]><r a='1' b=\"2\">&e;</r>",
    "<КоммерческаяИнформация ВерсияСхемы=\"2\"><Классификатор/></КоммерческаяИнформация>",
    "<a><a><a><a/></a></a></a>",
    "",
    "<r/>",
];

fn random_opts(r: &mut Rng) -> Options {
    const STRS: &[&str] = &["", "@", "$text", "$value", "Debug", "Serialize, Deserialize", "\"", "\n", "}{", "é", "a b", "\\"];
    let mut o = if r.chance(1, 2) { Options::quick_xml_de() } else { Options::serde_xml_rs() };
    if r.chance(1, 2) {
        o.derive = STRS[r.below(STRS.len())].to_string();
    }
    if r.chance(1, 2) {
        o.attribute_prefix = STRS[r.below(STRS.len())].to_string();
    }
    if r.chance(1, 2) {
        o.text_identifier = STRS[r.below(STRS.len())].to_string();
    }
    if r.chance(1, 2) {
        o.sort = SortBy::XmlName;
    }
    o
}

fn nested(r: &mut Rng, depth: usize) -> Vec<u8> {
    let names = ["a", "b", "a"];
    let mut out = Vec::new();
    for d in 0..depth {
        out.extend_from_slice(format!("<{}{}>", names[d % 3], if r.chance(1, 5) { " p=\"1\"" } else { "" }).as_bytes());
    }
    let close = if r.chance(1, 3) { depth / 2 } else { depth };
    for d in (depth - close..depth).rev() {
        out.extend_from_slice(format!("</{}>", names[d % 3]).as_bytes());
    }
    out
}

fn invalid_utf8(r: &mut Rng, doc: &[u8]) -> Vec<u8> {
    let mut d = doc.to_vec();
    let bad: &[&[u8]] = &[b"\xff", b"\xc3\x28", b"\xe2\x82", b"\xf0\x9f", b"\x80"];
    let n = 1 + r.below(2);
    for _ in 0..n {
        let i = if d.is_empty() { 0 } else { r.below(d.len() + 1) };
        for (k, b) in bad[r.below(bad.len())].iter().enumerate() {
            d.insert(i + k, *b);
        }
    }
    d
}

fn random_cfg(r: &mut Rng) -> ReaderCfg {
    ReaderCfg { trim_text: r.chance(1, 2), expand_empty: r.chance(1, 2), check_end_names: r.chance(1, 2), allow_unmatched_ends: r.chance(1, 4) }
}

fn feed_of(r: &mut Rng) -> Feed {
    match r.below(7) {
        0 => Feed::Whole,
        1 => Feed::Chunk(1),
        2 => Feed::Chunk(2),
        3 => Feed::Chunk(3),
        4 => Feed::Chunk(7),
        5 => Feed::Chunk(64),
        _ => Feed::BufReader(1 + r.below(16)),
    }
}

/// one case: parse doc1, extend with doc2 (if any), render every Ok result with random options
fn execute(docs: &[(Vec<u8>, ReaderCfg)], feed: Feed, opts: &[Options]) -> &'static str {
    let res = std::panic::catch_unwind(std::panic::AssertUnwindSafe(|| {
        let (f, tree) = crate::rewrite::run_session(docs, feed);
        if let Some(t) = tree {
            for o in opts {
                let _ = t.to_serde_struct(o);
            }
        }
        match f {
            crate::rewrite::Final::Rendered(_) => "ok",
            crate::rewrite::Final::Err(_) => "err",
            crate::rewrite::Final::Panic => "panic",
        }
    }));
    res.unwrap_or("panic")
}

/// watchdog against non-termination: the case being executed is published here; a background thread ends the
/// process (after writing the case down as a `hang`) when one case runs longer than the limit
static CURRENT: std::sync::Mutex<Option<(u64, Value)>> = std::sync::Mutex::new(None);

fn start_watchdog(limit_s: u64, out: Option<String>) {
    std::thread::spawn(move || {
        let mut last: (u64, std::time::Instant) = (u64::MAX, std::time::Instant::now());
        loop {
            std::thread::sleep(std::time::Duration::from_millis(500));
            let cur = CURRENT.lock().unwrap().clone();
            if let Some((idx, case)) = cur {
                if idx != last.0 {
                    last = (idx, std::time::Instant::now());
                } else if last.1.elapsed().as_secs() >= limit_s {
                    let mut c = case.clone();
                    c["class"] = json!("hang");
                    if let Some(p) = &out {
                        let _ = std::fs::write(p, format!("{}\n", c));
                    }
                    println!("{}", json!({"kind": "hostile", "hang": c}));
                    std::process::exit(3);
                }
            }
        }
    });
}

pub fn run(a: &Args) {
    start_watchdog(a.num("case-limit", 20), a.get("mismatches"));
    let mut r = Rng::new(a.num("seed", 1));
    let n = a.num("n", 10000) as usize;
    let log_each = a.get("log-each");
    // seed corpus
    let mut seeds: Vec<Vec<u8>> = CORPUS.iter().map(|s| s.as_bytes().to_vec()).collect();
    if let Some(p) = a.get("cases") {
        for c in read_lines(&p).iter().take(a.num("max-seeds", 400) as usize) {
            for call in c["calls"].as_array().unwrap() {
                seeds.push(serialize_salted(call["events"].as_array().unwrap(), 0, 0).bytes);
            }
        }
    }
    // names with a multi-byte character at every small byte offset (any fixed-offset slicing shows here)
    for ch in ["é", "€", "𝄞", "д"] {
        for off in 0..9 {
            let name = format!("{}{}{}", "abcdefghi".chars().take(off).collect::<String>(), ch, if off % 2 == 0 { "" } else { "z" });
            seeds.push(format!("<r {n}=\"1\"><{n} p=\"2\">t</{n}><x {n}=\"3\" xml:{n}=\"4\"/></r>", n = name).into_bytes());
            seeds.push(format!("<{n}><p:{n}/><{n}:q {n}:{n}=\"1\"/></{n}>", n = name).into_bytes());
        }
    }
    // shapes the state machine might not expect: several roots, text first / last, an element called like the synthetic
    // wrapper, stray end tags, a second document with another root (used as second document below)
    seeds.push(b"\xEF\xBB\xBF<a><b/></a>".to_vec());
    seeds.push(b"\xEF\xBB\xBF<?xml version=\"1.0\"?><a p=\"1\">t</a>".to_vec());
    seeds.push(b"\xFF\xFE<\x00a\x00/\x00>\x00".to_vec());
    for d in ["<a/><b/>", "<a/><a/>", "text<a/>", "<a/>text", "<root><root/></root>", "<root/>", "</a>", "<a></a></a>", "<a></b>",
              "<a><b></a></b>", "<b><a/></b>", "<r><a/></r><r><b/></r>", "<?xml version='1.0'?><!DOCTYPE a [<!ENTITY e 'v'>]><a>&e;</a>"] {
        seeds.push(d.as_bytes().to_vec());
    }
    for n in [":", "a:", ":a", "xmlns:", "xmlns", "x:", "::", "a::b", "xml:", "_", "-", "."] {
        seeds.push(format!("<r {n}=\"1\"><{n}/><{n} {n}=\"2\">t</{n}></r>", n = n).into_bytes());
    }
    // names that end in a number at, and one past, the widths of the integer types, colliding after separator replacement;
    // and numbers as whole local names / very long digit runs (anything that parses part of a name as an integer)
    for num in ["255", "256", "65535", "65536", "4294967295", "4294967296", "18446744073709551615", "18446744073709551616",
                "340282366920938463463374607431768211456", "007", "1e9", "-1"] {
        seeds.push(format!("<r><n_{0}/><n-{0}/><n.{0} n_{0}=\"1\" n-{0}=\"2\"/></r>", num).into_bytes());
        seeds.push(format!("<n_{0}><n_{0} x_{0}=\"1\"/><n-{0}>t</n-{0}></n_{0}>", num).into_bytes());
    }
    let g = GenCfg::rich();
    for _ in 0..40 {
        let root = g.names[r.below(g.names.len())].clone();
        let budget = 1 + r.below(30);
        seeds.push(document(&mut r, &g, &root, budget));
    }
    let mut failures: Vec<Value> = Vec::new();
    let mut outcomes: std::collections::BTreeMap<&'static str, usize> = Default::default();
    let mut kinds: std::collections::BTreeMap<&'static str, usize> = Default::default();
    let mut distinct: std::collections::HashSet<u64> = Default::default();
    let mut executed = 0usize;
    let mut case = |kind: &'static str, docs: Vec<(Vec<u8>, ReaderCfg)>, feed: Feed, r: &mut Rng,
                    failures: &mut Vec<Value>, executed: &mut usize| {
        let opts: Vec<Options> = (0..2).map(|_| random_opts(r)).collect();
        if let Some(p) = &log_each {
            let _ = std::fs::write(p, serde_json::to_vec(&json!({"kind": "hostile", "how": kind, "feed": format!("{:?}", feed), "docs": docs_json(&docs)})).unwrap());
        }
        let mut h = std::collections::hash_map::DefaultHasher::new();
        use std::hash::{Hash, Hasher};
        for d in &docs {
            d.0.hash(&mut h);
        }
        distinct.insert(h.finish());
        *CURRENT.lock().unwrap() = Some((*executed as u64, json!({"kind": "hostile", "how": kind, "feed": format!("{:?}", feed), "docs": docs_json(&docs)})));
        let o = execute(&docs, feed, &opts);
        *executed += 1;
        *outcomes.entry(o).or_default() += 1;
        *kinds.entry(kind).or_default() += 1;
        if o == "panic" && failures.len() < 50 {
            failures.push(json!({"kind": "hostile", "class": "panic", "how": kind, "feed": format!("{:?}", feed), "docs": docs_json(&docs)}));
        }
    };
    // truncation of a few seeds at every offset
    let trunc_seeds = a.num("trunc-seeds", 50) as usize;
    for s in seeds.iter().take(trunc_seeds) {
        for cut in 0..=s.len() {
            case("truncation at every offset", vec![(s[..cut].to_vec(), ReaderCfg::default_cfg())], Feed::Whole, &mut r, &mut failures, &mut executed);
        }
    }
    // scale: one element repeated more often than a narrowed counter could hold, many distinct children, many attributes
    if a.num("scale", 1) == 1 {
        for reps in [300usize, 70_000] {
            let mut d = b"<r>".to_vec();
            for i in 0..reps {
                d.extend_from_slice(if i % 2 == 0 { b"<a/>" } else { b"<a></a>" });
            }
            d.extend_from_slice(b"</r>");
            case("an element repeated 300 / 70 000 times", vec![(d.clone(), ReaderCfg::default_cfg()), (d, ReaderCfg::default_cfg())], Feed::Whole, &mut r, &mut failures, &mut executed);
        }
        let mut d = b"<r".to_vec();
        for i in 0..400 {
            d.extend_from_slice(format!(" a{}=\"1\"", i).as_bytes());
        }
        d.push(b'>');
        for i in 0..400 {
            d.extend_from_slice(format!("<k{}/>", i).as_bytes());
        }
        d.extend_from_slice(b"</r>");
        case("400 distinct attributes and children", vec![(d, ReaderCfg::default_cfg())], Feed::Chunk(7), &mut r, &mut failures, &mut executed);
    }
    // deep nesting
    for depth in [1usize, 50, 100, 150, 200] {
        for _ in 0..4 {
            let d = nested(&mut r, depth);
            let cfg = random_cfg(&mut r);
            case("nesting up to depth 200", vec![(d.clone(), cfg), (d, cfg)], feed_of(&mut r), &mut r, &mut failures, &mut executed);
        }
    }
    while executed < n {
        let s1 = seeds[r.below(seeds.len())].clone();
        let s2 = seeds[r.below(seeds.len())].clone();
        let (kind, d1): (&'static str, Vec<u8>) = match r.below(8) {
            0 => ("valid seed", s1),
            1 | 2 | 3 => ("byte-level damage", damage(&mut r, &s1)),
            4 => ("invalid UTF-8 injected", invalid_utf8(&mut r, &s1)),
            5 => ("raw random bytes", {
                let len = r.below(64);
                (0..len).map(|_| if r.chance(1, 3) { *r.pick(b"<>/\"'=&;!?[]- a") } else { r.below(256) as u8 }).collect()
            }),
            6 => ("spliced seeds", {
                let i = if s1.is_empty() { 0 } else { r.below(s1.len()) };
                let j = if s2.is_empty() { 0 } else { r.below(s2.len()) };
                let mut v = s1[..i].to_vec();
                v.extend_from_slice(&s2[j..]);
                v
            }),
            _ => ("damage twice", { let x = damage(&mut r, &s1); damage(&mut r, &x) }),
        };
        let mut docs = vec![(d1, random_cfg(&mut r))];
        if r.chance(1, 2) {
            let d2 = if r.chance(1, 2) { s2 } else { damage(&mut r, &s2) };
            docs.push((d2, random_cfg(&mut r)));
        }
        let feed = feed_of(&mut r);
        case(kind, docs, feed, &mut r, &mut failures, &mut executed);
    }
    finish_report("hostile", executed, &failures, a.get("mismatches"),
        json!({"outcomes": outcomes, "kinds": kinds, "distinct": distinct.len(), "seeds": seeds.len()}));
}

/// replay of one hostile case
pub fn replay(a: &Args) {
    let v: Value = serde_json::from_str(&std::fs::read_to_string(a.req("case")).expect("case file")).expect("json");
    let docs: Vec<(Vec<u8>, ReaderCfg)> = v["docs"].as_array().unwrap().iter().map(|d| (unhex(d["hex"].as_str().unwrap_or("")), cfg_from(&d["cfg"]))).collect();
    let f = v["feed"].as_str().unwrap_or("Whole");
    let n: usize = f.chars().filter(|c| c.is_ascii_digit()).collect::<String>().parse().unwrap_or(0);
    let feed = if f.starts_with("Chunk") { Feed::Chunk(n) } else if f.starts_with("BufReader") { Feed::BufReader(n.max(1)) } else { Feed::Whole };
    let mut r = Rng::new(1);
    let mut worst = "ok";
    for _ in 0..8 {
        let opts: Vec<Options> = (0..4).map(|_| random_opts(&mut r)).collect();
        let o = execute(&docs, feed, &opts);
        if o == "panic" {
            worst = "panic";
        }
    }
    println!("{}", json!({"outcome": worst}));
}
