//! turns the event sequences of the specification into real XML bytes (deliberately dumb: fixed shapes,
//! unique value tokens vN / tN / cN so that nothing can be dropped unnoticed)

use serde_json::Value;

#[derive(Clone, Copy, Debug, Default, PartialEq)]
pub struct ReaderCfg {
    pub trim_text: bool,
    pub expand_empty: bool,
    pub check_end_names: bool,
    pub allow_unmatched_ends: bool,
}

impl ReaderCfg {
    pub fn default_cfg() -> ReaderCfg {
        ReaderCfg { trim_text: false, expand_empty: false, check_end_names: true, allow_unmatched_ends: false }
    }
}

pub struct Doc {
    pub bytes: Vec<u8>,
    pub cfg: ReaderCfg,
    /// value tokens written into the document (attribute values, text, cdata)
    pub tokens: Vec<String>,
}

pub fn name_str(v: &Value) -> String {
    match v {
        Value::String(s) => s.clone(),
        Value::Array(a) => a.iter().map(|c| c.as_str().unwrap_or("")).collect(),
        _ => String::new(),
    }
}

/// serialise one call's events; `variant` selects among equivalent ways to provoke a fault
pub fn serialize(events: &[Value], variant: usize) -> Doc {
    serialize_salted(events, variant, 0)
}

/// `salt` selects other (non-empty) attribute values and character data: 0 = vN/tN/cN tokens,
/// 1 = longer values with entities, 2 = whitespace-only text and values
pub fn serialize_salted(events: &[Value], variant: usize, salt: usize) -> Doc {
    let mut out: Vec<u8> = Vec::new();
    let mut stack: Vec<String> = Vec::new();
    let mut cfg = ReaderCfg::default_cfg();
    let mut tokens = Vec::new();
    let mut n = 0usize;
    if salt == 3 {
        // the references used as content are declared, so the document stays well-formed (inserting a DOCTYPE is itself one of the rewrites)
        out.extend_from_slice(b"<!DOCTYPE r [<!ENTITY co \"ACME\"><!ENTITY nbsp \"&#160;\">]>");
    }
    let mut tok = |p: &str, tokens: &mut Vec<String>| {
        n += 1;
        let t = match salt {
            0 => format!("{}{:03}", p, n),
            1 => format!("other {} &lt;{}&gt; value", p, n * 7),
            3 => if p == "c" { ["&co;", "x]]y", "]]"][n % 3].to_string() } else { ["&co;", "&nbsp;", "AT&T"][n % 3].to_string() },
            // 4: empty attribute values (character data keeps its token: text versus no text is structure)
            4 => if p == "v" { String::new() } else { format!("{}{:03}", p, n) },
            // 27 ..: attribute values and character data are constants of the code under test (salt - 27 + token number
            // selects one); characters that would end the value or the text are left out
            s if s >= 27 => {
                let lits = crate::gen::literals();
                if lits.is_empty() {
                    format!("{}{:03}", p, n)
                } else {
                    lits[(s - 27 + n) % lits.len()].replace(['<', '>', '&', '"', '\''], "")
                }
            }
            // 6 .. 26: long values: ASCII up to a boundary length (15 .. 4097 bytes; salt - 6 + token number selects it) and
            // multi-byte characters across the boundary
            s if (6..27).contains(&s) => {
                const L: [usize; 21] = [15, 16, 17, 31, 32, 33, 63, 64, 65, 127, 128, 129, 255, 256, 257, 1023, 1024, 1025, 4095, 4096, 4097];
                let len = L[(s - 6 + n) % 21];
                let mut t: String = (0..len - 1 - (n % 3)).map(|i| (b'a' + (i % 26) as u8) as char).collect();
                t.push_str("\u{20ac}\u{1F600}\u{e9}b");
                t
            }
            // 5: the tokens of salt 0, but every CDATA section is empty (still a CDATA node)
            5 => if p == "c" { String::new() } else { format!("{}{:03}", p, n) },
            _ => "  ".to_string(),
        };
        tokens.push(t.clone());
        t
    };
    for ev in events {
        let kind = ev["kind"].as_str().unwrap_or("");
        let fault = ev["fault"].as_str().unwrap_or("none");
        let name = name_str(&ev["name"]);
        match kind {
            "Start" | "Empty" => {
                out.push(b'<');
                if fault == "name" {
                    out.extend_from_slice(b"n\xff");
                } else {
                    out.extend_from_slice(name.as_bytes());
                }
                if let Some(attrs) = ev["attrs"].as_array() {
                    for a in attrs {
                        let v = tok("v", &mut tokens);
                        out.extend_from_slice(format!(" {}=\"{}\"", name_str(a), v).as_bytes());
                    }
                }
                match fault {
                    "attr" => match variant % 3 {
                        0 => out.extend_from_slice(b" dup=\"1\" dup=\"2\""),
                        1 => out.extend_from_slice(b" bare=1"),
                        _ => out.extend_from_slice(b" novalue"),
                    },
                    "key" => out.extend_from_slice(b" k\xff=\"1\""),
                    _ => {}
                }
                if kind == "Empty" {
                    out.extend_from_slice(b"/>");
                } else {
                    out.push(b'>');
                    stack.push(name);
                }
            }
            "End" => match stack.pop() {
                Some(nm) => out.extend_from_slice(format!("</{}>", nm).as_bytes()),
                None => {
                    // a stray end tag is only delivered as an event when unmatched ends are allowed
                    cfg.allow_unmatched_ends = true;
                    out.extend_from_slice(b"</stray>");
                }
            },
            "Text" => {
                if fault == "utf8" {
                    out.extend_from_slice(b"t\xff");
                } else {
                    out.extend_from_slice(tok("t", &mut tokens).as_bytes());
                }
            }
            "CData" => {
                out.extend_from_slice(b"<![CDATA[");
                if fault == "utf8" {
                    out.extend_from_slice(b"c\xff");
                } else {
                    out.extend_from_slice(tok("c", &mut tokens).as_bytes());
                }
                out.extend_from_slice(b"]]>");
            }
            "Comment" => out.extend_from_slice(b"<!-- note -->"),
            "Decl" => out.extend_from_slice(b"<?xml version=\"1.0\" encoding=\"UTF-8\"?>"),
            "PI" => out.extend_from_slice(b"<?target data?>"),
            "DocType" => out.extend_from_slice(b"<!DOCTYPE r>"),
            "Err" => {
                match variant % 4 {
                    0 => out.extend_from_slice(b"<!-- never closed"),
                    1 => out.extend_from_slice(b"</mismatch>"),
                    2 => out.extend_from_slice(b"<![CDATA[ never closed"),
                    _ => out.extend_from_slice(b"<unclosed"),
                }
                break;
            }
            "Eof" => break,
            _ => {}
        }
    }
    Doc { bytes: out, cfg, tokens }
}
