//! the public construction API of Element driven by operation lists (C16, and tree construction for the renderer)

use crate::render::unchars;
use crate::util::*;
use serde_json::{json, Value};
use xml_schema_generator::{Element, Necessity};

fn names(v: &Value) -> Vec<String> {
    v.as_array().map(|a| a.iter().map(unchars).collect()).unwrap_or_default()
}

fn at<'a>(root: &'a mut Element<String>, path: &[String]) -> Option<&'a mut Element<String>> {
    let mut cur = root;
    for p in path {
        cur = cur.get_child_mut(p)?.inner_t_mut();
    }
    Some(cur)
}

/// what the public lookups say at the element an operation addressed: for every name of interest the result of
/// get_child and get_child_mut (found?, necessity, name of the child returned)
pub fn lookups(root: &mut Option<Element<String>>, op: &Value, pool: &[String]) -> Value {
    let path = names(&op["path"]);
    let r = match root.as_mut() {
        Some(r) => r,
        None => return json!([]),
    };
    let target = match at(r, &path) {
        Some(t) => t,
        None => return json!([]),
    };
    let mut out = Vec::new();
    for n in pool {
        let a = target.get_child(n).map(|c| (matches!(c, Necessity::Mandatory(_)), c.inner_t().name.clone()));
        let b = target.get_child_mut(n).map(|c| (matches!(c, Necessity::Mandatory(_)), c.inner_t().name.clone()));
        out.push(json!({"name": crate::render::chars(n), "found": a.is_some(), "found_mut": b.is_some(),
                        "t": a.as_ref().map(|x| tag(x.0)).unwrap_or("-"), "t_mut": b.as_ref().map(|x| tag(x.0)).unwrap_or("-"),
                        "got": crate::render::chars(a.as_ref().map(|x| x.1.as_str()).unwrap_or("")),
                        "got_mut": crate::render::chars(b.as_ref().map(|x| x.1.as_str()).unwrap_or(""))}));
    }
    Value::Array(out)
}

/// apply one operation through the public API only; returns false if the addressed element does not exist
pub fn apply(root: &mut Option<Element<String>>, op: &Value) -> bool {
    let kind = op["op"].as_str().unwrap_or("");
    if kind == "new" {
        *root = Some(Element::new(unchars(&op["name"]), names(&op["attrs"])));
        return true;
    }
    let r = match root.as_mut() {
        Some(r) => r,
        None => return false,
    };
    let path = names(&op["path"]);
    let target = match at(r, &path) {
        Some(t) => t,
        None => return false,
    };
    match kind {
        "add" => target.add_unique_child(Element::new(unchars(&op["name"]), names(&op["attrs"]))),
        "optional" => target.set_child_optional(&unchars(&op["name"])),
        "remove" => {
            target.remove_child(&unchars(&op["name"]));
        }
        "multiple" => target.set_multiple(),
        "text" => target.text = Some("some text".to_string()),
        "increment" => target.increment(),
        "merge" => {
            let list: Vec<Necessity<String>> = op["attrs"].as_array().map(|a| a.iter().map(|x| {
                let v = unchars(&x["v"]);
                if x["t"] == "M" { Necessity::Mandatory(v) } else { Necessity::Optional(v) }
            }).collect()).unwrap_or_default();
            // merge_attr consumes the element
            let taken = std::mem::replace(target, Element::new(String::new(), Vec::new()));
            *target = taken.merge_attr(list);
        }
        _ => return false,
    }
    true
}

/// spec -> impl for ElementApi / Render instances: every case is an operation list with the tree the
/// specification predicts after every operation; the real tree must be the same (full view).
/// With --trace the final trees are also rendered and logged for RenderTrace.
pub fn replay(a: &Args) {
    let cases = read_lines(&a.req("cases"));
    let mut mismatches = Vec::new();
    let mut r = Rng::new(a.num("seed", 1));
    let extra = a.num("extra-opts", 1) as usize;
    let mut trace = a.get("trace").map(|p| Out::create(&p));
    let mut steps = 0usize;
    let mut drift = 0usize;
    let mut drift_samples: Vec<Value> = Vec::new();
    let mut renders = a.get("render-trace").map(|p| Out::create(&p));
    let repeat = a.num("repeat", 0) as usize;
    let mut repeated = 0usize;
    // with --reverse the cases are processed in the opposite order; --digests writes one digest per case in input order,
    // so that two processes that saw the cases in different orders can be compared (state leaking between renderings)
    let reverse = a.num("reverse", 0) == 1;
    let mut digest_at: Vec<(usize, String)> = Vec::new();
    let mut order: Vec<usize> = if reverse { (0..cases.len()).rev().collect() } else { (0..cases.len()).collect() };
    if a.num("shuffle", 0) > 0 {
        Rng::new(a.num("shuffle", 0)).shuffle(&mut order);
    }
    for ci in order {
        let c = &cases[ci];
        let ops = c["ops"].as_array().expect("ops");
        let mut root: Option<Element<String>> = None;
        let mut bad = false;
        if let Some(t) = trace.as_mut() {
            t.line(&json!({"ev": "Reset"}));
        }
        for (i, op) in ops.iter().enumerate() {
            let before = root.as_ref().map(|e| crate::render::view_chars(&e.verif_view())).unwrap_or(json!({"none": true}));
            let res = std::panic::catch_unwind(std::panic::AssertUnwindSafe(|| {
                let mut rr = root.take();
                let ok = apply(&mut rr, op);
                (rr, ok)
            }));
            steps += 1;
            match res {
                Ok((rr, _)) => {
                    root = rr;
                    if let Some(e) = root.as_ref() {
                        crate::util::probe_render(e);
                    }
                }
                Err(_) => {
                    mismatches.push(json!({"kind": "api", "class": "panic", "ops": ops, "step": i}));
                    bad = true;
                    break;
                }
            }
            let actual = root.as_ref().map(|e| crate::render::view_chars(&e.verif_view())).unwrap_or(json!({"none": true}));
            if let Some(t) = trace.as_mut() {
                let pool: Vec<String> = { let mut p: Vec<String> = ops.iter().filter_map(|o| o.get("name")).map(unchars).collect(); p.sort(); p.dedup(); p };
                let lk = if op["op"] == "new" { json!([]) } else { lookups(&mut root, op, &pool) };
                t.line(&json!({"ev": "Op", "op": op, "before": before, "after": actual, "lookups": lk}));
            }
            if let Some(exp) = c["trees"].get(i) {
                if *exp != actual {
                    drift += 1;
                    if drift_samples.len() < 3 {
                        drift_samples.push(json!({"ops": ops, "step": i, "model": exp, "actual": actual}));
                    }
                }
            }
        }
        if bad {
            continue;
        }
        if let (Some(t), Some(e)) = (renders.as_mut(), root.as_ref()) {
            let mut opts = crate::render::option_tuples_for(&mut r, extra, e);
            if a.get("opts").as_deref() == Some("two") {
                opts = vec![opts.remove(0), opts.remove(2)];
            }
            t.line(&crate::render::render_event(e, &opts, json!({"ops": ops})));
        }
        // C05 on hand-built trees: every rendering builds fresh HashMaps, so repetitions range over iteration orders
        if let (true, Some(e)) = (repeat > 0, root.as_ref()) {
            let all = crate::rewrite::render_all(e);
            digest_at.push((ci, format!("{:016x}", crate::rewrite::fnv(&all))));
            for _ in 0..repeat {
                repeated += 1;
                let again = crate::rewrite::render_all(e);
                if again != all {
                    mismatches.push(json!({"kind": "repeat-tree", "class": "c05", "ops": ops, "first": all, "other": again}));
                    break;
                }
            }
        }
    }
    let lines = trace.map(|t| t.finish()).unwrap_or(0);
    let rlines = renders.map(|t| t.finish()).unwrap_or(0);
    if let Some(p) = a.get("digests") {
        digest_at.sort();
        std::fs::write(p, digest_at.into_iter().map(|x| x.1).collect::<Vec<_>>().join("\n")).expect("write digests");
    }
    if repeat > 0 {
        println!("{}", json!({"repeated": repeated}));
    }
    finish_report("api", cases.len(), &mismatches, a.get("mismatches"),
        json!({"steps": steps, "trace_events": lines, "render_events": rlines, "drift": drift, "drift_samples": drift_samples}));
}

thread_local! {
    /// percentage of operations that address the root (wide trees)
    static ROOT_BIAS: std::cell::Cell<usize> = const { std::cell::Cell::new(0) };
}

/// a random operation over the name pools (paths are taken from the current tree)
fn random_op(r: &mut Rng, root: &Element<String>, names: &[String], attrs: &[String], kinds: &[&str]) -> Value {
    // a node of the tree chosen uniformly (deep nodes are as likely as shallow ones)
    fn collect(e: &Element<String>, here: &mut Vec<String>, all: &mut Vec<Vec<String>>) {
        all.push(here.clone());
        let mut seen: Vec<&String> = Vec::new();
        for c in e.children() {
            let c = c.inner_t();
            // get_child_mut addresses the first child with a name
            if seen.contains(&&c.name) || here.len() >= 7 {
                continue;
            }
            seen.push(&c.name);
            here.push(c.name.clone());
            collect(c, here, all);
            here.pop();
        }
    }
    let mut all = Vec::new();
    collect(root, &mut Vec::new(), &mut all);
    let path: Vec<String> = if r.chance(ROOT_BIAS.with(|b| b.get()), 100) { Vec::new() } else { all[r.below(all.len())].clone() };
    let pathv: Vec<Value> = path.iter().map(|p| crate::render::chars(p)).collect();
    let name = crate::render::chars(&names[r.below(names.len())]);
    let mut al: Vec<String> = attrs.iter().filter(|_| r.chance(1, 4)).cloned().collect();
    r.shuffle(&mut al);
    match *r.pick(kinds) {
        "add" => json!({"op": "add", "path": pathv, "name": name, "attrs": al.iter().map(|x| crate::render::chars(x)).collect::<Vec<_>>()}),
        "optional" => json!({"op": "optional", "path": pathv, "name": name}),
        "remove" => json!({"op": "remove", "path": pathv, "name": name}),
        "merge" => json!({"op": "merge", "path": pathv, "attrs": al.iter().map(|x| json!({"t": if r.chance(1, 2) { "M" } else { "O" }, "v": crate::render::chars(x)})).collect::<Vec<_>>()}),
        "multiple" => json!({"op": "multiple", "path": pathv}),
        _ => json!({"op": "text", "path": pathv}),
    }
}

/// impl -> spec: random operation sequences beyond the exhaustive bound; Op lines for ApiTrace and Render lines
/// for RenderTrace
pub fn record(a: &Args) {
    let mut r = Rng::new(a.num("seed", 1));
    let n = a.num("n", 100) as usize;
    let maxops = a.num("ops", 60) as usize;
    let extra = a.num("extra-opts", 1) as usize;
    let with_remove = a.num("remove", 1) == 1;
    let pool: Vec<String> = match a.get("pool") {
        Some(p) => p.split(',').map(|s| s.to_string()).collect(),
        None => ["a", "b", "c", "Item", "item", "ns:a", "x-y", "type", "text", "Foo"].iter().map(|s| s.to_string()).collect(),
    };
    let attrs: Vec<String> = ["p", "q", "id", "type", "xmlns:n", "n:q", "x-y", "text"].iter().map(|s| s.to_string()).collect();
    let mut trace = a.get("trace").map(|p| Out::create(&p));
    let mut renders = a.get("render-trace").map(|p| Out::create(&p));
    let mut steps = 0usize;
    let mut kinds: Vec<&str> = vec!["add", "add", "add", "optional", "merge", "multiple", "text"];
    if with_remove {
        kinds.push("remove");
    }
    ROOT_BIAS.with(|b| b.set(a.num("root-bias", 0) as usize));
    let kinds_arg = a.get("kinds");
    if let Some(k) = &kinds_arg {
        kinds = k.split(',').collect();
    }
    for _ in 0..n {
        let k = if a.get("pool-all").is_some() { pool.len() } else { 2 + r.below(5) };
        let mut names = pool.clone();
        r.shuffle(&mut names);
        names.truncate(k.min(names.len()));
        let first = json!({"op": "new", "name": crate::render::chars(&names[r.below(names.len())]), "attrs": []});
        let mut root: Option<Element<String>> = None;
        apply(&mut root, &first);
        if let Some(t) = trace.as_mut() {
            t.line(&json!({"ev": "Reset"}));
            t.line(&json!({"ev": "Op", "op": first, "before": {"none": true}, "lookups": [],
                           "after": crate::render::view_chars(&root.as_ref().unwrap().verif_view())}));
        }
        let nops = 1 + r.below(maxops);
        let mut ops = vec![first];
        // mode "paths": the tree is the union of a few root-to-leaf paths that end in the same name and share parts of
        // their ancestor chains — the input space of the struct-name qualification (compute_name_hints)
        let mut planned: Vec<Value> = Vec::new();
        if a.get("mode").as_deref() == Some("paths") {
            let leaf = names[r.below(names.len())].clone();
            let k = 2 + r.below(4);
            for _ in 0..k {
                let len = 1 + r.below(5);
                let mut path: Vec<String> = Vec::new();
                for d in 0..len {
                    let nm = if d + 1 == len { leaf.clone() } else { names[r.below(names.len())].clone() };
                    planned.push(json!({"op": "add", "path": path.iter().map(|p| crate::render::chars(p)).collect::<Vec<_>>(),
                                        "name": crate::render::chars(&nm), "attrs": if r.chance(1, 3) { json!([crate::render::chars("p")]) } else { json!([]) }}));
                    path.push(nm);
                }
            }
            planned.reverse();
        }
        let nops = if planned.is_empty() { nops } else { planned.len() };
        for _ in 0..nops {
            let op = match planned.pop() {
                Some(op) => op,
                None => random_op(&mut r, root.as_ref().unwrap(), &names, &attrs, &kinds),
            };
            let before = crate::render::view_chars(&root.as_ref().unwrap().verif_view());
            let res = std::panic::catch_unwind(std::panic::AssertUnwindSafe(|| {
                let mut rr = root.take();
                apply(&mut rr, &op);
                rr
            }));
            steps += 1;
            match res {
                Ok(rr) => {
                    root = rr;
                    if let Some(e) = root.as_ref() {
                        crate::util::probe_render(e);
                    }
                }
                Err(_) => {
                    if let Some(t) = trace.as_mut() {
                        t.line(&json!({"ev": "Panic", "op": op, "before": before}));
                    }
                    break;
                }
            }
            ops.push(op.clone());
            if let Some(t) = trace.as_mut() {
                let lk = lookups(&mut root, &op, &names);
                t.line(&json!({"ev": "Op", "op": op, "before": before,
                               "after": crate::render::view_chars(&root.as_ref().unwrap().verif_view()), "lookups": lk}));
            }
        }
        if let (Some(t), Some(e)) = (renders.as_mut(), root.as_ref()) {
            let mut opts = crate::render::option_tuples_for(&mut r, extra, e);
            if a.get("opts").as_deref() == Some("two") {
                opts = vec![opts.remove(0), opts.remove(2)];
            }
            t.line(&crate::render::render_event(e, &opts, json!({"ops": ops})));
        }
    }
    let lines = trace.map(|t| t.finish()).unwrap_or(0);
    let rlines = renders.map(|t| t.finish()).unwrap_or(0);
    println!("{}", json!({"kind": "api-trace", "events": lines, "render_events": rlines, "steps": steps, "sequences": n}));
}
