//! C12: the real binary under the fault scenarios of Cli.tla; observables compared with the specification's
//! prediction, system calls (strace) logged for CliTrace

use crate::render::{opts_from, unchars};
use crate::util::*;
use quick_xml::reader::Reader;
use serde_json::{json, Value};
use std::path::{Path, PathBuf};
use std::process::Command;
use xml_schema_generator::into_struct;

const HEADER: &str = "use serde::{Deserialize, Serialize};\n\n";
/// the old content of an existing output file: longer than any rendering, so that a missing truncation shows
fn sentinel() -> Vec<u8> {
    let mut v = Vec::new();
    for i in 0..400 {
        v.extend_from_slice(format!("// line {:04} of the old content that must survive a failing run and vanish in a successful one\n", i).as_bytes());
    }
    v
}

fn setup_input(dir: &Path, kind: &str, valid_doc: &[u8], variant: usize) -> PathBuf {
    let p = dir.join("in.xml");
    match kind {
        "valid" => std::fs::write(&p, valid_doc).unwrap(),
        "malformed" => {
            // the plain ones, and the same faults with multi-byte characters packed around the place of the error
            let dense = |k: usize| -> Vec<u8> {
                let fill: String = ["\u{e9}", "\u{20ac}", "\u{1F600}", "a\u{e9}"][k % 4].repeat(7 + k % 13);
                format!("<r><n>{0}</n><p>{0}</p><x>{0}</y><q>{0}</q></r>", fill).into_bytes()
            };
            match variant % 8 {
                0 => std::fs::write(&p, b"<a><b></a>").unwrap(),
                1 => std::fs::write(&p, b"<a x=\"1\" x=\"2\"/>").unwrap(),
                2 => std::fs::write(&p, b"<a><!-- open").unwrap(),
                3 => std::fs::write(&p, b"<a></a></a>").unwrap(),
                k => std::fs::write(&p, dense(variant / 8 * 4 + k)).unwrap(),
            }
        }
        "noelement" => std::fs::write(&p, [&b"<?xml version=\"1.0\"?><!-- nothing here -->"[..], b"", b"  \n\t\n", b"only text",
                                            "\u{442}\u{43e}\u{43b}\u{44c}\u{43a}\u{43e} \u{442}\u{435}\u{43a}\u{441}\u{442} \u{20ac}\u{1F600}".as_bytes()][variant % 5]).unwrap(),
        "nonutf8" => std::fs::write(&p, [&b"<a>\xff\xfe</a>"[..], b"\xff\xfe<\x00a\x00/\x00>\x00", b"<a b=\"\xc3\x28\"/>"][variant % 3]).unwrap(),
        "directory" => std::fs::create_dir_all(&p).unwrap(),
        _ => {} // missing
    }
    p
}

/// returns the output path and the old content of an existing output file
fn setup_output(dir: &Path, kind: &str, input: &Path, variant: usize) -> (Option<PathBuf>, Vec<u8>) {
    let p = setup_output_path(dir, kind, input, variant);
    let old = match (&p, kind) {
        (Some(p), "existing") => std::fs::read(p).unwrap_or_default(),
        _ => Vec::new(),
    };
    (p, old)
}

fn setup_output_path(dir: &Path, kind: &str, input: &Path, variant: usize) -> Option<PathBuf> {
    match kind {
        "stdout" => None,
        // a plain name, a name with blanks, a name in a sub-directory reached through `..`
        "newfile" => Some(match variant % 3 {
            0 => dir.join("out.rs"),
            1 => dir.join("my out file.rs"),
            _ => {
                std::fs::create_dir_all(dir.join("sub")).unwrap();
                dir.join("sub").join("..").join("out.rs")
            }
        }),
        "existing" => {
            // every third time the existing output file is the input file itself
            if variant % 3 == 2 && input.is_file() {
                // ... sometimes in another spelling of the same path
                return Some(if variant % 2 == 0 { input.to_path_buf() } else { dir.join(".").join(input.file_name().unwrap()) });
            }
            let p = dir.join("out.rs");
            std::fs::write(&p, sentinel()).unwrap();
            // every fourth time the named path is a symbolic link to the existing file
            if variant % 4 == 1 {
                let link = dir.join("link to out.rs");
                let _ = std::fs::remove_file(&link);
                if std::os::unix::fs::symlink(&p, &link).is_ok() {
                    return Some(link);
                }
            }
            Some(p)
        }
        "nodir" => Some(dir.join("no_such_dir").join("out.rs")),
        _ => {
            let p = dir.join("outdir");
            std::fs::create_dir_all(&p).unwrap();
            Some(p)
        }
    }
}

fn file_state(p: &Option<PathBuf>, rendered: &Option<String>, old: &[u8], existed: bool) -> String {
    match p {
        None => "absent".into(),
        Some(p) => {
            if p.is_dir() {
                return "dir".into();
            }
            match std::fs::read(p) {
                Err(_) => "absent".into(),
                Ok(b) if existed && b == old => "old".into(),
                Ok(b) if b.is_empty() => "truncated".into(),
                Ok(b) => match rendered {
                    Some(r) if b == format!("{}{}", HEADER, r).as_bytes() => "header+rendering".into(),
                    _ => format!("other:{}", String::from_utf8_lossy(&b).chars().take(200).collect::<String>()),
                },
            }
        }
    }
}

/// map one strace line to an event of CliTrace
fn strace_event(line: &str, input: &Path, output: &Option<PathBuf>, outfd: &mut Option<String>) -> Option<Value> {
    let rest = line.split_once(' ').map(|x| x.1).unwrap_or(line).trim_start();
    if let Some(r) = rest.strip_prefix("openat(") {
        let ret_ok = !r.rsplit_once("= ").map(|x| x.1.trim_start().starts_with('-')).unwrap_or(true);
        let path = r.split('"').nth(1).unwrap_or("");
        let writing = r.contains("O_WRONLY") || r.contains("O_CREAT") || r.contains("O_RDWR");
        if let Some(o) = output {
            // (the output path may be the input path itself: the flags tell the two opens apart)
            if Path::new(path) == o.as_path() && writing {
                if ret_ok {
                    *outfd = r.rsplit_once("= ").map(|x| x.1.trim().to_string());
                }
                return Some(json!({"ev": "CreateOut", "ok": ret_ok}));
            }
        }
        if Path::new(path) == input && !writing {
            return Some(json!({"ev": "OpenInput", "ok": ret_ok}));
        }
        return None;
    }
    if let Some(r) = rest.strip_prefix("write(") {
        let fd = r.split(',').next().unwrap_or("").trim();
        if fd == "1" {
            return Some(json!({"ev": "Print"}));
        }
        if fd == "2" {
            return Some(json!({"ev": "Diag"}));
        }
        if Some(fd.to_string()) == *outfd {
            return Some(json!({"ev": "WriteFile"}));
        }
        return None;
    }
    if let Some(r) = rest.strip_prefix("exit_group(") {
        let code: i64 = r.split(')').next().unwrap_or("0").trim().parse().unwrap_or(-1);
        return Some(json!({"ev": "Exit", "code": code}));
    }
    None
}

pub fn replay(a: &Args) {
    let cases = read_lines(&a.req("cases"));
    let bin = a.req("bin");
    let work = PathBuf::from(a.req("work"));
    let use_strace = a.num("strace", 1) == 1;
    let docs: Vec<Vec<u8>> = match a.get("docs") {
        Some(p) => read_lines(&p).iter().map(|d| crate::run::unhex(d["hex"].as_str().unwrap_or(""))).collect(),
        None => vec![b"<a b=\"c\"><d>x</d><d>y</d><e f=\"1\"/></a>".to_vec(),
                     b"<?xml version=\"1.0\"?>\n<ns:r xmlns:ns=\"u\" type=\"t\"><z/><b q=\"1\" p=\"2\">t</b><b p=\"3\"/><a/></ns:r>\n".to_vec(),
                     b"<r>only text</r>".to_vec(),
                     b"<Foo><foo/><Type type=\"x\"/><text>t</text></Foo>".to_vec()],
    };
    let mut trace = a.get("trace").map(|p| Out::create(&p));
    let mut mismatches = Vec::new();
    let mut runs = 0usize;
    for (ci, c) in cases.iter().enumerate() {
        let dir = work.join(format!("case{}", ci));
        let _ = std::fs::remove_dir_all(&dir);
        std::fs::create_dir_all(&dir).unwrap();
        let valid = &docs[ci % docs.len()];
        let input = setup_input(&dir, c["input"].as_str().unwrap(), valid, ci / 7);
        // every fourth valid input is a named pipe that delivers the document in three pieces ("every input file")
        let fifo = c["input"] == "valid" && ci % 4 == 3 && {
            let _ = std::fs::remove_file(&input);
            Command::new("mkfifo").arg(&input).status().map(|s| s.success()).unwrap_or(false)
        };
        if c["input"] == "valid" && ci % 4 == 3 && !fifo {
            std::fs::write(&input, valid).unwrap();
        }
        let (output, old) = setup_output(&dir, c["out"].as_str().unwrap(), &input, ci / 5);
        // an option the behaviour leaves out ("ABSENT") is not passed; the others cycle through the spellings clap accepts
        let mut args: Vec<String> = Vec::new();
        let mut flag = |long: &str, short: &str, val: String, form: usize| match form % 3 {
            0 => { args.push(format!("--{}", long)); args.push(val); }
            1 => args.push(format!("--{}={}", long, val)),
            _ => { args.push(format!("-{}", short)); args.push(val); }
        };
        if c["args"]["parser"] != "ABSENT" {
            flag("parser", "p", c["args"]["parser"].as_str().unwrap().into(), ci);
        }
        if c["args"]["derive"] != json!(["ABSENT"]) {
            flag("derive", "d", unchars(&c["args"]["derive"]), ci / 3);
        }
        if c["args"]["sort"] != "ABSENT" {
            flag("sort", "s", c["args"]["sort"].as_str().unwrap().into(), ci / 9);
        }
        args.push(input.to_string_lossy().into_owned());
        if let Some(o) = &output {
            args.push(o.to_string_lossy().into_owned());
        }
        // the library's rendering for the options the *specification* derives from the arguments
        let rendered: Option<String> = if c["input"] == "valid" {
            let text = String::from_utf8_lossy(valid).into_owned();
            let mut reader = Reader::from_str(&text);
            into_struct(&mut reader).ok().map(|t| t.to_serde_struct(&opts_from(&c["opts"])))
        } else {
            None
        };
        let st = dir.join("strace.txt");
        // "every input file and every combination of options": nothing else may matter - the runs cycle through
        // environments (inherited / nearly empty / unusual locale and terminal settings) and working directories
        let mut cmd = if use_strace {
            let mut c0 = Command::new("strace");
            c0.arg("-f").arg("-o").arg(&st).arg("-e").arg("trace=openat,write,exit_group").arg("-s").arg("0").arg(&bin);
            c0
        } else {
            Command::new(&bin)
        };
        cmd.args(&args).env_remove("RUST_LOG");
        match ci % 3 {
            1 => {
                cmd.env_clear().env("PATH", std::env::var("PATH").unwrap_or_default());
            }
            2 => {
                cmd.env("LANG", "tr_TR.UTF-8").env("LC_ALL", "tr_TR.UTF-8").env("NO_COLOR", "1").env("CLICOLOR_FORCE", "1").env("TERM", "dumb")
                    .env("COLUMNS", "20").env("RUST_LOG", "trace").env("RUST_BACKTRACE", "full").env("TZ", "Pacific/Kiritimati").current_dir("/");
            }
            _ => {}
        }
        if fifo {
            let (path, bytes) = (input.clone(), valid.clone());
            std::thread::spawn(move || {
                use std::io::Write;
                if let Ok(mut f) = std::fs::OpenOptions::new().write(true).open(&path) {
                    let (a, b) = (bytes.len() / 3, 2 * bytes.len() / 3);
                    for piece in [&bytes[..a], &bytes[a..b], &bytes[b..]] {
                        let _ = f.write_all(piece);
                        let _ = f.flush();
                        std::thread::sleep(std::time::Duration::from_millis(25));
                    }
                }
            });
        }
        let out = cmd.output();
        let out = match out {
            Ok(o) => o,
            Err(e) => {
                eprintln!("cannot run the binary: {}", e);
                std::process::exit(2);
            }
        };
        runs += 1;
        let exit = out.status.code().unwrap_or(-1);
        let stdout_state = if out.stdout.is_empty() {
            "empty".to_string()
        } else {
            match &rendered {
                Some(r) if out.stdout == format!("{}{}\n", HEADER, r).as_bytes() => "header+rendering+newline".into(),
                _ => format!("other:{}", String::from_utf8_lossy(&out.stdout).chars().take(200).collect::<String>()),
            }
        };
        let actual = json!({"exit": exit, "stdout": stdout_state, "stderr": !out.stderr.is_empty(), "file": file_state(&output, &rendered, &old, c["out"] == "existing")});
        let expected = json!({"exit": c["exit"], "stdout": c["stdout"], "stderr": c["stderr"], "file": c["file"]});
        if actual != expected {
            mismatches.push(json!({"kind": "cli", "class": "observable", "case": c, "args": args, "expected": expected, "actual": actual,
                                   "valid_doc": String::from_utf8_lossy(valid), "stderr_text": String::from_utf8_lossy(&out.stderr)}));
        }
        if let Some(t) = trace.as_mut() {
            t.line(&json!({"ev": "Begin", "input": c["input"], "out": c["out"], "parser": c["args"]["parser"],
                           "derive": c["args"]["derive"], "sort": c["args"]["sort"], "case": ci}));
            if let Ok(text) = std::fs::read_to_string(&st) {
                let mut outfd = None;
                for line in text.lines() {
                    if let Some(ev) = strace_event(line, &input, &output, &mut outfd) {
                        t.line(&ev);
                    }
                }
            }
        }
        let _ = std::fs::remove_dir_all(&dir);
    }
    let lines = trace.map(|t| t.finish()).unwrap_or(0);
    finish_report("cli", cases.len(), &mismatches, a.get("mismatches"), json!({"runs": runs, "trace_events": lines}));
}
