//! the independent observer: a second quick_xml::Reader over the same bytes that records what the reader
//! reports, in stream order, without calling the library under test. It produces the event records of
//! Parser.tla (kind, name, attrs, fault) and, for a reader error, its position and Debug text.

use crate::xmlser::ReaderCfg;
use quick_xml::events::{BytesStart, Event};
use quick_xml::reader::Reader;
use serde_json::{json, Value};

pub fn configure<R>(r: &mut Reader<R>, cfg: &ReaderCfg) {
    let c = r.config_mut();
    c.trim_text(cfg.trim_text);
    c.expand_empty_elements = cfg.expand_empty;
    c.check_end_names = cfg.check_end_names;
    c.allow_unmatched_ends = cfg.allow_unmatched_ends;
}

fn tag(kind: &str, e: &BytesStart<'_>) -> Value {
    let name_ok = std::str::from_utf8(e.name().as_ref()).is_ok();
    let name = String::from_utf8_lossy(e.name().as_ref()).into_owned();
    if !name_ok {
        return json!({"kind": kind, "name": name, "attrs": [], "fault": "name"});
    }
    let mut attrs = Vec::new();
    let mut fault = "none";
    for a in e.attributes() {
        match a {
            Ok(a) => match std::str::from_utf8(a.key.as_ref()) {
                Ok(k) => attrs.push(k.to_string()),
                Err(_) => {
                    fault = "key";
                    break;
                }
            },
            Err(_) => {
                fault = "attr";
                break;
            }
        }
    }
    json!({"kind": kind, "name": name, "attrs": attrs, "fault": fault})
}

fn plain(kind: &str, fault: &str) -> Value {
    json!({"kind": kind, "name": "", "attrs": [], "fault": fault})
}

pub struct Observed {
    pub events: Vec<Value>,
    /// (buffer_position, Debug of the error) if the reader reported an error
    pub error: Option<(u64, String)>,
    /// Text events whose content is whitespace only (index into events)
    pub ws_text: Vec<usize>,
}

/// read the whole input the way build_struct does: every frame that is open when Eof arrives reads Eof again
pub fn observe(bytes: &[u8], cfg: &ReaderCfg) -> Observed {
    observe_reader(Reader::from_reader(bytes), cfg)
}

/// the same pass over any buffered source (e.g. one that fails with an I/O error at some offset)
pub fn observe_reader<R: std::io::BufRead>(mut reader: Reader<R>, cfg: &ReaderCfg) -> Observed {
    configure(&mut reader, cfg);
    let mut buf = Vec::new();
    let mut events = Vec::new();
    let mut ws_text = Vec::new();
    let mut depth: usize = 1;
    let mut error = None;
    loop {
        let ev = reader.read_event_into(&mut buf);
        match ev {
            Ok(Event::Start(e)) => {
                let t = tag("Start", &e);
                let faulty = t["fault"] != "none";
                events.push(t);
                if faulty {
                    break;
                }
                depth += 1;
            }
            Ok(Event::Empty(e)) => {
                let t = tag("Empty", &e);
                let faulty = t["fault"] != "none";
                events.push(t);
                if faulty {
                    break;
                }
            }
            Ok(Event::Text(e)) => {
                let raw = e.into_inner();
                let ok = std::str::from_utf8(&raw).is_ok();
                if ok && raw.iter().all(|b| b.is_ascii_whitespace()) {
                    ws_text.push(events.len());
                }
                events.push(plain("Text", if ok { "none" } else { "utf8" }));
                if !ok {
                    break;
                }
            }
            Ok(Event::CData(e)) => {
                let raw = e.into_inner();
                let ok = std::str::from_utf8(&raw).is_ok();
                // an empty (or whitespace-only) CDATA section is a node but carries no data
                if ok && raw.iter().all(|b| b.is_ascii_whitespace()) {
                    ws_text.push(events.len());
                }
                events.push(plain("CData", if ok { "none" } else { "utf8" }));
                if !ok {
                    break;
                }
            }
            Ok(Event::End(_)) => {
                events.push(plain("End", "none"));
                depth -= 1;
                if depth == 0 {
                    break;
                }
            }
            Ok(Event::Eof) => {
                // build_struct returns from one frame per Eof
                for _ in 0..depth {
                    events.push(plain("Eof", "none"));
                }
                break;
            }
            Ok(Event::Comment(_)) => events.push(plain("Comment", "none")),
            Ok(Event::Decl(_)) => events.push(plain("Decl", "none")),
            Ok(Event::PI(_)) => events.push(plain("PI", "none")),
            Ok(Event::DocType(_)) => events.push(plain("DocType", "none")),
            Err(e) => {
                events.push(plain("Err", "none"));
                error = Some((reader.buffer_position(), format!("{:?}", e)));
                break;
            }
        }
        buf.clear();
    }
    Observed { events, error, ws_text }
}
