//! the observable schema of a tree (Parser.tla: Proj) and an independent DOM-based inference (Schema.tla: TyOf)
//! written without any code shared with the library

use serde_json::{json, Value};
use xml_schema_generator::verif::View;

/// Proj: everything but count, text content and internal order; children by position
pub fn proj(v: &View) -> Value {
    let mut kids: Vec<&(bool, View)> = v.children.iter().collect();
    kids.sort_by_key(|(_, c)| c.position);
    json!({
        "text": v.text,
        "attrs": v.attributes.iter().map(|(m, a)| json!({"n": a, "opt": !m})).collect::<Vec<_>>(),
        "kids": kids.iter().map(|(m, c)| json!({"n": c.name, "opt": !m, "multi": !c.standalone, "ty": proj(c)})).collect::<Vec<_>>(),
    })
}

/// nesting depth of a view
pub fn view_depth(v: &View) -> usize {
    1 + v.children.iter().map(|(_, c)| view_depth(c)).max().unwrap_or(0)
}

/// The projection of a deep tree as a pre-order list of positions with their depth (the JSON reader of the trace
/// specifications refuses documents nested deeper than 255 levels; SchemaTrace!UnflattenProj rebuilds the record).
pub fn proj_flat(v: &View) -> Value {
    fn walk(v: &View, d: usize, n: &str, opt: bool, multi: bool, out: &mut Vec<Value>) {
        out.push(json!({"d": d, "n": n, "opt": opt, "multi": multi, "text": v.text,
                        "attrs": v.attributes.iter().map(|(m, a)| json!({"n": a, "opt": !m})).collect::<Vec<_>>()}));
        let mut kids: Vec<&(bool, View)> = v.children.iter().collect();
        kids.sort_by_key(|(_, c)| c.position);
        for (m, c) in kids {
            walk(c, d + 1, &c.name, !m, !c.standalone, out);
        }
    }
    let mut out = Vec::new();
    walk(v, 0, &v.name, false, false, &mut out);
    Value::Array(out)
}

/// "proj" for shallow trees, "projflat" for deep ones
pub fn result_ok(v: &View) -> Value {
    if view_depth(v) > 60 {
        json!({"st": "ok", "projflat": proj_flat(v)})
    } else {
        json!({"st": "ok", "proj": proj(v)})
    }
}

/// a DOM node built from observed events
#[derive(Clone, Debug, Default)]
pub struct Node {
    pub name: String,
    pub attrs: Vec<String>,
    pub kids: Vec<Node>,
    pub has_text: bool,
    /// some text/cdata item is not whitespace-only
    pub has_data: bool,
}

/// build the DOM of one document from observed event records; returns the top-level elements
pub fn dom(events: &[Value], ws_text: &[usize]) -> Vec<Node> {
    let mut stack: Vec<Node> = vec![Node::default()];
    for (i, ev) in events.iter().enumerate() {
        match ev["kind"].as_str().unwrap_or("") {
            k @ ("Start" | "Empty") => {
                let n = Node {
                    name: ev["name"].as_str().unwrap_or("").to_string(),
                    attrs: ev["attrs"].as_array().map(|a| a.iter().map(|x| x.as_str().unwrap_or("").to_string()).collect()).unwrap_or_default(),
                    ..Default::default()
                };
                if k == "Start" {
                    stack.push(n);
                } else {
                    stack.last_mut().unwrap().kids.push(n);
                }
            }
            "Text" | "CData" => {
                let top = stack.last_mut().unwrap();
                top.has_text = true;
                if !ws_text.contains(&i) {
                    top.has_data = true;
                }
            }
            "End" | "Eof" => {
                if stack.len() > 1 {
                    let n = stack.pop().unwrap();
                    stack.last_mut().unwrap().kids.push(n);
                }
            }
            _ => {}
        }
    }
    while stack.len() > 1 {
        let n = stack.pop().unwrap();
        stack.last_mut().unwrap().kids.push(n);
    }
    stack.pop().unwrap().kids
}

fn first_seen<'a>(it: impl Iterator<Item = &'a String>) -> Vec<String> {
    let mut out: Vec<String> = Vec::new();
    for s in it {
        if !out.contains(s) {
            out.push(s.clone());
        }
    }
    out
}

/// TyOf: the schema determined by all occurrences of one position
pub fn ty_of(occs: &[&Node]) -> Value {
    let attrs = first_seen(occs.iter().flat_map(|o| o.attrs.iter()));
    let kids = first_seen(occs.iter().flat_map(|o| o.kids.iter().map(|k| &k.name)));
    json!({
        "text": occs.iter().any(|o| o.has_text),
        "attrs": attrs.iter().map(|a| json!({"n": a, "opt": occs.iter().any(|o| !o.attrs.contains(a))})).collect::<Vec<_>>(),
        "kids": kids.iter().map(|k| {
            let counts: Vec<usize> = occs.iter().map(|o| o.kids.iter().filter(|c| c.name == *k).count()).collect();
            let sub: Vec<&Node> = occs.iter().flat_map(|o| o.kids.iter().filter(|c| c.name == *k)).collect();
            json!({"n": k, "opt": counts.iter().any(|c| *c == 0), "multi": counts.iter().any(|c| *c > 1), "ty": ty_of(&sub)})
        }).collect::<Vec<_>>(),
    })
}

/// forget the order of attrs and kids (Schema.tla: Unordered) by sorting them
pub fn unordered(ty: &Value) -> Value {
    let mut attrs: Vec<Value> = ty["attrs"].as_array().cloned().unwrap_or_default();
    attrs.sort_by_key(|a| a["n"].as_str().unwrap_or("").to_string());
    let mut kids: Vec<Value> = ty["kids"].as_array().cloned().unwrap_or_default().into_iter().map(|k| {
        json!({"n": k["n"], "opt": k["opt"], "multi": k["multi"], "ty": unordered(&k["ty"])})
    }).collect();
    kids.sort_by_key(|a| a["n"].as_str().unwrap_or("").to_string());
    json!({"text": ty["text"], "attrs": attrs, "kids": kids})
}

/// Schema.tla: Admits — the type describes the occurrence (C01 on the inferred flags)
pub fn admits(ty: &Value, occ: &Node) -> bool {
    let tattrs = ty["attrs"].as_array().cloned().unwrap_or_default();
    let tkids = ty["kids"].as_array().cloned().unwrap_or_default();
    for a in &occ.attrs {
        if !tattrs.iter().any(|t| t["n"] == *a) {
            return false;
        }
    }
    for t in &tattrs {
        if t["opt"] == false && !occ.attrs.iter().any(|a| t["n"] == *a) {
            return false;
        }
    }
    for k in &occ.kids {
        match tkids.iter().find(|t| t["n"] == k.name) {
            Some(t) => {
                if !admits(&t["ty"], k) {
                    return false;
                }
            }
            None => return false,
        }
    }
    for t in &tkids {
        let c = occ.kids.iter().filter(|k| t["n"] == k.name).count();
        if t["opt"] == false && c == 0 {
            return false;
        }
        if t["multi"] == false && c > 1 {
            return false;
        }
    }
    if occ.has_text && ty["text"] != true {
        return false;
    }
    true
}

fn local(n: &str) -> &str {
    n.split_once(':').map(|x| x.1).unwrap_or(n)
}

/// two sibling element names, or two attribute names of one element, differ only by namespace prefix
/// (such documents are outside the domain of C01 and of the properties that quantify "as in C01")
pub fn prefix_clash(n: &Node) -> bool {
    let clash = |names: Vec<&str>| names.iter().any(|a| names.iter().any(|b| a != b && local(a) == local(b)));
    clash(n.kids.iter().map(|k| k.name.as_str()).collect())
        || clash(n.attrs.iter().map(|a| a.as_str()).collect())
        || n.kids.iter().any(prefix_clash)
}
