//! the real renderer observed: strict template parser of to_serde_struct output, option tuples, trace lines

use crate::util::*;
use serde_json::{json, Value};
use xml_schema_generator::verif::View;
use xml_schema_generator::{Element, Options, SortBy};

/// a string as the specification sees it: a sequence of one-character strings
pub fn chars(s: &str) -> Value {
    // non-ASCII characters travel as ASCII atoms uXXXX (TLC mangles non-ASCII strings read from JSON)
    Value::Array(s.chars().map(|c| if c.is_ascii() { json!(c.to_string()) } else { json!(format!("u{:04x}", c as u32)) }).collect())
}

pub fn unchars(v: &Value) -> String {
    match v {
        Value::String(s) => s.clone(),
        Value::Array(a) => a.iter().map(|c| {
            let t = c.as_str().unwrap_or("");
            if t.len() > 1 && t.starts_with('u') {
                u32::from_str_radix(&t[1..], 16).ok().and_then(char::from_u32).map(|ch| ch.to_string()).unwrap_or_default()
            } else {
                t.to_string()
            }
        }).collect(),
        _ => String::new(),
    }
}

/// view with all names as character sequences (Render.tla)
pub fn view_chars(v: &View) -> Value {
    json!({
        "name": chars(&v.name),
        "text": v.text,
        "sa": v.standalone,
        "cnt": v.count,
        "pos": match v.position { Some(p) => p as i64, None => -1 },
        "attrs": v.attributes.iter().map(|(m, a)| json!({"t": tag(*m), "v": chars(a)})).collect::<Vec<_>>(),
        "ch": v.children.iter().map(|(m, c)| json!({"t": tag(*m), "e": view_chars(c)})).collect::<Vec<_>>(),
    })
}

pub fn opts_json(o: &Options) -> Value {
    json!({"derive": chars(&o.derive), "prefix": chars(&o.attribute_prefix), "textid": chars(&o.text_identifier),
           "sort": match o.sort { SortBy::Unsorted => "Unsorted", SortBy::XmlName => "XmlName" }})
}

pub fn opts_from(v: &Value) -> Options {
    Options {
        derive: unchars(&v["derive"]),
        attribute_prefix: unchars(&v["prefix"]),
        text_identifier: unchars(&v["textid"]),
        sort: if v["sort"] == "XmlName" { SortBy::XmlName } else { SortBy::Unsorted },
    }
}

/// Strict parser of the output template:
///   [#[derive(D)]]
///   pub struct NAME {
///       [#[serde(rename = "R")]]
///       pub IDENT: TYPE,
///   }
///   <empty line>
/// TYPE is T, Option<T>, Vec<T> or Option<Vec<T>>. Any other line is an error.
pub fn parse_rendered(text: &str) -> Result<Vec<Value>, String> {
    let mut out = Vec::new();
    let lines: Vec<&str> = text.split('\n').collect();
    let mut i = 0;
    // the output ends with "}\n\n": the split leaves one trailing empty string
    let n = if lines.last() == Some(&"") { lines.len() - 1 } else { return Err("output does not end with a newline".into()) };
    while i < n {
        let mut hasderive = false;
        let mut derive = String::new();
        if let Some(rest) = lines[i].strip_prefix("#[derive(") {
            match rest.strip_suffix(")]") {
                Some(d) => {
                    hasderive = true;
                    derive = d.to_string();
                    i += 1;
                }
                None => return Err(format!("line {}: malformed derive line {:?}", i + 1, lines[i])),
            }
        }
        if i >= n {
            return Err("derive line without struct".into());
        }
        let name = match lines[i].strip_prefix("pub struct ").and_then(|r| r.strip_suffix(" {")) {
            Some(nm) => nm.to_string(),
            None => return Err(format!("line {}: expected `pub struct NAME {{`, found {:?}", i + 1, lines[i])),
        };
        i += 1;
        let mut fields = Vec::new();
        loop {
            if i >= n {
                return Err("struct not closed".into());
            }
            if lines[i] == "}" {
                i += 1;
                break;
            }
            let mut hasren = false;
            let mut ren = String::new();
            if let Some(rest) = lines[i].strip_prefix("    #[serde(rename = \"") {
                match rest.strip_suffix("\")]") {
                    Some(r) => {
                        hasren = true;
                        ren = r.to_string();
                        i += 1;
                    }
                    None => return Err(format!("line {}: malformed rename line {:?}", i + 1, lines[i])),
                }
                if i >= n {
                    return Err("rename line without field".into());
                }
            }
            let body = match lines[i].strip_prefix("    pub ").and_then(|r| r.strip_suffix(",")) {
                Some(b) => b,
                None => return Err(format!("line {}: expected `    pub IDENT: TYPE,`, found {:?}", i + 1, lines[i])),
            };
            let (ident, ty) = match body.split_once(": ") {
                Some(x) => x,
                None => return Err(format!("line {}: field without type {:?}", i + 1, lines[i])),
            };
            let (opt, rest) = match ty.strip_prefix("Option<").and_then(|r| r.strip_suffix(">")) {
                Some(inner) => (true, inner),
                None => (false, ty),
            };
            let (vec, base) = match rest.strip_prefix("Vec<").and_then(|r| r.strip_suffix(">")) {
                Some(inner) => (true, inner),
                None => (false, rest),
            };
            if base.contains('<') || base.contains('>') || base.contains(' ') || ident.contains(' ') {
                return Err(format!("line {}: unexpected type or identifier shape {:?}", i + 1, lines[i]));
            }
            fields.push(json!({"hasren": hasren, "ren": chars(&ren), "ident": chars(ident), "opt": opt, "vec": vec, "base": chars(base)}));
            i += 1;
        }
        if i >= n || !lines[i].is_empty() {
            return Err(format!("line {}: expected an empty line after a struct", i + 1));
        }
        i += 1;
        if name.contains(' ') {
            return Err(format!("struct name with a blank: {:?}", name));
        }
        out.push(json!({"hasderive": hasderive, "derive": chars(&derive), "name": chars(&name), "fields": fields}));
    }
    Ok(out)
}

/// one render of a tree under one option tuple, as logged for RenderTrace
pub fn render_record(e: &Element<String>, o: &Options) -> Value {
    let text = std::panic::catch_unwind(std::panic::AssertUnwindSafe(|| e.to_serde_struct(o)));
    match text {
        Err(_) => json!({"opts": opts_json(o), "ok": false, "structs": [], "error": "panic", "text": ""}),
        Ok(t) => match parse_rendered(&t) {
            Ok(s) => {
                let mut v = json!({"opts": opts_json(o), "ok": true, "structs": s, "text": t});
                // every VERIF_LAYOUT-th rendering carries its text as a character sequence (RenderTrace!LayoutTags)
                static N: std::sync::atomic::AtomicUsize = std::sync::atomic::AtomicUsize::new(0);
                static STRIDE: std::sync::OnceLock<usize> = std::sync::OnceLock::new();
                let stride = *STRIDE.get_or_init(|| std::env::var("VERIF_LAYOUT").ok().and_then(|x| x.parse().ok()).unwrap_or(4));
                if stride > 0 && N.fetch_add(1, std::sync::atomic::Ordering::Relaxed) % stride == 0 && t.len() <= 6000 {
                    v["textchars"] = chars(&t);
                }
                v
            }
            Err(msg) => json!({"opts": opts_json(o), "ok": false, "structs": [], "error": msg, "text": t}),
        },
    }
}

/// attribute prefixes that make prefix + local name equal to the identifier of some attribute of this tree
/// (e.g. `ns_` for `ns:id`, `car_` for `type` under <car>): the boundary of the rename decision
pub fn derived_prefixes(e: &Element<String>) -> Vec<String> {
    let mut out: Vec<String> = Vec::new();
    let text = match std::panic::catch_unwind(std::panic::AssertUnwindSafe(|| e.to_serde_struct(&Options::quick_xml_de()))) {
        Ok(t) => t,
        Err(_) => return out,
    };
    let mut pending: Option<String> = None;
    for line in text.lines() {
        if let Some(r) = line.strip_prefix("    #[serde(rename = \"@").and_then(|x| x.strip_suffix("\")]")) {
            pending = Some(r.to_string());
        } else if let Some(body) = line.strip_prefix("    pub ") {
            if let (Some(local), Some((ident, _))) = (pending.take(), body.split_once(": ")) {
                if ident.ends_with(&local) && ident.len() > local.len() {
                    let p = ident[..ident.len() - local.len()].to_string();
                    if !out.contains(&p) {
                        out.push(p);
                    }
                }
            }
        } else {
            pending = None;
        }
    }
    out
}

/// option tuples a tree is rendered under; `extra` adds derive / prefix / text identifier variations
pub fn option_tuples_for(r: &mut Rng, extra: usize, e: &Element<String>) -> Vec<Options> {
    let mut v = option_tuples(r, extra);
    if extra > 0 {
        for p in derived_prefixes(e).into_iter().take(2) {
            let mut o = Options::quick_xml_de();
            o.attribute_prefix = p;
            v.push(o);
        }
    }
    v
}

pub fn option_tuples(r: &mut Rng, extra: usize) -> Vec<Options> {
    let mut v = Vec::new();
    for sort in [false, true] {
        let mut q = Options::quick_xml_de();
        let mut s = Options::serde_xml_rs();
        if sort {
            q.sort = SortBy::XmlName;
            s.sort = SortBy::XmlName;
        }
        v.push(q);
        v.push(s);
    }
    const DERIVES: &[&str] = &["", "Debug", "Serialize, Deserialize, Debug, Clone, PartialEq", "serde::Deserialize", "D(x)", "Debug,",
                               " Debug ", "Debug, Debug", "Serialize,Deserialize", "Deserialize", "a b", ")]",
                               // strings that mean something to a formatter, a template or a regular expression
                               "{}", "Wrapper<{}>", "{0}", "{{}}", "%s", "$1", "\\n", "D\u{e9}bug"];
    const PREFIXES: &[&str] = &["", "@", "a", "attr_", "@@", "$", "i", "p", "x", "n:", "xmlns:", "_", "\u{e4}@", "\u{e9}", "\u{434}_", "\u{df}", "{}", "%s"];
    const TEXTIDS: &[&str] = &["$text", "$value", "t", "text", "#text", "body", "\u{e9}$", "\u{442}\u{435}\u{43a}\u{441}\u{442}", "{}", "$1"];
    for _ in 0..extra {
        let d: &str = DERIVES[r.below(DERIVES.len())];
        let mut o = Options::quick_xml_de().derive(d);
        o.attribute_prefix = r.pick(PREFIXES).to_string();
        o.text_identifier = r.pick(TEXTIDS).to_string();
        let mut o2 = Options::quick_xml_de().derive(&o.derive);
        o2.attribute_prefix = o.attribute_prefix.clone();
        o2.text_identifier = o.text_identifier.clone();
        o2.sort = SortBy::XmlName;
        v.push(o);
        v.push(o2);
    }
    v
}

/// the characters Chars.tla knows (generated table next to the specification)
fn known_chars() -> &'static std::collections::HashSet<char> {
    static SET: std::sync::OnceLock<std::collections::HashSet<char>> = std::sync::OnceLock::new();
    SET.get_or_init(|| {
        let path = concat!(env!("CARGO_MANIFEST_DIR"), "/../spec/chars_table.json");
        let v: Value = serde_json::from_str(&std::fs::read_to_string(path).expect("spec/chars_table.json")).expect("json");
        v.as_array().unwrap().iter().filter_map(|r| r["c"].as_str().and_then(|s| s.chars().next())).collect()
    })
}

/// all element and attribute names of the tree consist of characters of the model alphabet
pub fn in_alphabet(v: &View) -> bool {
    let ok = |s: &str| s.chars().all(|c| known_chars().contains(&c));
    ok(&v.name) && v.attributes.iter().all(|(_, a)| ok(a)) && v.children.iter().all(|(_, c)| in_alphabet(c))
}

/// a deep tree as a pre-order list of elements with their depth (see proj::proj_flat; RenderTrace!Unflatten)
pub fn view_flat(v: &View) -> Value {
    fn walk(v: &View, d: usize, t: &str, out: &mut Vec<Value>) {
        out.push(json!({"d": d, "t": t, "name": chars(&v.name), "text": v.text, "sa": v.standalone, "cnt": v.count,
                        "pos": match v.position { Some(p) => p as i64, None => -1 },
                        "attrs": v.attributes.iter().map(|(m, a)| json!({"t": tag(*m), "v": chars(a)})).collect::<Vec<_>>()}));
        for (m, c) in &v.children {
            walk(c, d + 1, tag(*m), out);
        }
    }
    let mut out = Vec::new();
    walk(v, 0, "M", &mut out);
    Value::Array(out)
}

pub fn render_event(e: &Element<String>, opts: &[Options], extra: Value) -> Value {
    let view = e.verif_view();
    let mut ev = json!({"ev": "Render", "renders": opts.iter().map(|o| render_record(e, o)).collect::<Vec<_>>()});
    if crate::proj::view_depth(&view) > 60 {
        ev["flat"] = view_flat(&view);
    } else {
        ev["tree"] = view_chars(&view);
    }
    if let (Some(m), Some(x)) = (ev.as_object_mut(), extra.as_object()) {
        for (k, v) in x {
            m.insert(k.clone(), v.clone());
        }
    }
    ev
}
