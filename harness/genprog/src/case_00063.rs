#![allow(dead_code, non_snake_case, non_camel_case_types, unused_imports)]
// variant a: the rendered source unchanged
pub mod a {
use serde::{Deserialize, Serialize};

#[derive(Serialize, Deserialize)]
pub struct C {
    pub q: String,
    pub id: String,
    pub p: String,
    #[serde(rename = "$text")]
    pub text: Option<String>,
}

pub fn de(doc: &str) -> Result<(), String> { serde_xml_rs::from_str::<C>(doc).map(|_| ()).map_err(|e| e.to_string()) }
}
// variant b: every struct additionally denies unknown fields
pub mod b {
use serde::{Deserialize, Serialize};

#[derive(Serialize, Deserialize)]
#[serde(deny_unknown_fields)]
pub struct C {
    pub q: String,
    pub id: String,
    pub p: String,
    #[serde(rename = "$text")]
    pub text: Option<String>,
}

pub fn de(doc: &str) -> Result<(), String> { serde_xml_rs::from_str::<C>(doc).map(|_| ()).map_err(|e| e.to_string()) }
}
// variant c: rendered with Debug in the derive string, to inspect the value
pub mod c {
use serde::{Deserialize, Serialize};

#[derive(Serialize, Deserialize, Debug)]
pub struct C {
    pub q: String,
    pub id: String,
    pub p: String,
    #[serde(rename = "$text")]
    pub text: Option<String>,
}

pub fn de(doc: &str) -> Result<String, String> { serde_xml_rs::from_str::<C>(doc).map(|v| format!("{:?}", v)).map_err(|e| e.to_string()) }
}
pub const DOCS: &[&str] = &[
    "<?xml version=\"1.0\" encoding=\"UTF-8\"?>\n<c q=\"v001\" id=\"v002\" p=\"v003\">t004</c>\n",
];
pub const VALUES: &[&[(&str, &str)]] = &[
    &[("attr", "v001"), ("attr", "v002"), ("attr", "v003"), ("text", "t004"), ],
];
pub fn run() { crate::report(63, DOCS, VALUES, a::de, b::de, c::de); }
