#![allow(dead_code, non_snake_case, non_camel_case_types, unused_imports)]
// variant a: the rendered source unchanged
pub mod a {
use serde::{Deserialize, Serialize};

#[derive(Serialize, Deserialize)]
pub struct B {
    pub p: String,
    pub name: BName,
}

#[derive(Serialize, Deserialize)]
pub struct BName {
    #[serde(rename = "r")]
    pub n_r: String,
    pub name: NameName,
}

#[derive(Serialize, Deserialize)]
pub struct NameName {
    pub id: String,
    #[serde(rename = "r")]
    pub n_r: String,
    #[serde(rename = "$text")]
    pub text: Option<String>,
}

pub fn de(doc: &str) -> Result<(), String> { serde_xml_rs::from_str::<B>(doc).map(|_| ()).map_err(|e| e.to_string()) }
}
// variant b: every struct additionally denies unknown fields
pub mod b {
use serde::{Deserialize, Serialize};

#[derive(Serialize, Deserialize)]
#[serde(deny_unknown_fields)]
pub struct B {
    pub p: String,
    pub name: BName,
}

#[derive(Serialize, Deserialize)]
#[serde(deny_unknown_fields)]
pub struct BName {
    #[serde(rename = "r")]
    pub n_r: String,
    pub name: NameName,
}

#[derive(Serialize, Deserialize)]
#[serde(deny_unknown_fields)]
pub struct NameName {
    pub id: String,
    #[serde(rename = "r")]
    pub n_r: String,
    #[serde(rename = "$text")]
    pub text: Option<String>,
}

pub fn de(doc: &str) -> Result<(), String> { serde_xml_rs::from_str::<B>(doc).map(|_| ()).map_err(|e| e.to_string()) }
}
// variant c: rendered with Debug in the derive string, to inspect the value
pub mod c {
use serde::{Deserialize, Serialize};

#[derive(Serialize, Deserialize, Debug)]
pub struct B {
    pub p: String,
    pub name: BName,
}

#[derive(Serialize, Deserialize, Debug)]
pub struct BName {
    #[serde(rename = "r")]
    pub n_r: String,
    pub name: NameName,
}

#[derive(Serialize, Deserialize, Debug)]
pub struct NameName {
    pub id: String,
    #[serde(rename = "r")]
    pub n_r: String,
    #[serde(rename = "$text")]
    pub text: Option<String>,
}

pub fn de(doc: &str) -> Result<String, String> { serde_xml_rs::from_str::<B>(doc).map(|v| format!("{:?}", v)).map_err(|e| e.to_string()) }
}
pub const DOCS: &[&str] = &[
    "<b p=\"v001\"><name n:r=\"v002\"><name id=\"v003\" n:r=\"v004\">t005t006</name></name></b><?target?>",
];
pub const VALUES: &[&[(&str, &str)]] = &[
    &[("attr", "v001"), ("attr", "v002"), ("attr", "v003"), ("attr", "v004"), ("text", "t005t006"), ],
];
pub fn run() { crate::report(55, DOCS, VALUES, a::de, b::de, c::de); }
