#![allow(dead_code, non_snake_case, non_camel_case_types, unused_imports)]
// variant a: the rendered source unchanged
pub mod a {
use serde::{Deserialize, Serialize};

#[derive(Serialize, Deserialize)]
pub struct Name {
    pub q: Option<String>,
    pub p: Option<String>,
    pub c: Vec<NameC>,
    pub d: Option<NameD>,
}

#[derive(Serialize, Deserialize)]
pub struct NameC {
    #[serde(rename = "type")]
    pub c_type: Option<String>,
    pub id: Option<String>,
    pub p: Option<String>,
    pub q: Option<String>,
    #[serde(rename = "r")]
    pub n_r: Option<String>,
    #[serde(rename = "$text")]
    pub text: Option<String>,
    pub c: Option<Vec<CC>>,
    pub b: Option<B>,
}

#[derive(Serialize, Deserialize)]
pub struct CC {
    pub id: String,
    #[serde(rename = "type")]
    pub c_type: String,
    #[serde(rename = "r")]
    pub n_r: Option<String>,
    pub q: String,
    pub p: Option<String>,
    #[serde(rename = "$text")]
    pub text: Option<String>,
}

#[derive(Serialize, Deserialize)]
pub struct B {
    pub p: String,
    #[serde(rename = "r")]
    pub n_r: String,
    #[serde(rename = "type")]
    pub b_type: String,
}

#[derive(Serialize, Deserialize)]
pub struct NameD {
    pub p: Option<String>,
    pub d: Option<Vec<DD>>,
}

#[derive(Serialize, Deserialize)]
pub struct DD {
    pub id: Option<String>,
    #[serde(rename = "type")]
    pub d_type: Option<String>,
    pub q: Option<String>,
    #[serde(rename = "r")]
    pub n_r: Option<String>,
    #[serde(rename = "$text")]
    pub text: Option<String>,
}

pub fn de(doc: &str) -> Result<(), String> { serde_xml_rs::from_str::<Name>(doc).map(|_| ()).map_err(|e| e.to_string()) }
}
// variant b: every struct additionally denies unknown fields
pub mod b {
use serde::{Deserialize, Serialize};

#[derive(Serialize, Deserialize)]
#[serde(deny_unknown_fields)]
pub struct Name {
    pub q: Option<String>,
    pub p: Option<String>,
    pub c: Vec<NameC>,
    pub d: Option<NameD>,
}

#[derive(Serialize, Deserialize)]
#[serde(deny_unknown_fields)]
pub struct NameC {
    #[serde(rename = "type")]
    pub c_type: Option<String>,
    pub id: Option<String>,
    pub p: Option<String>,
    pub q: Option<String>,
    #[serde(rename = "r")]
    pub n_r: Option<String>,
    #[serde(rename = "$text")]
    pub text: Option<String>,
    pub c: Option<Vec<CC>>,
    pub b: Option<B>,
}

#[derive(Serialize, Deserialize)]
#[serde(deny_unknown_fields)]
pub struct CC {
    pub id: String,
    #[serde(rename = "type")]
    pub c_type: String,
    #[serde(rename = "r")]
    pub n_r: Option<String>,
    pub q: String,
    pub p: Option<String>,
    #[serde(rename = "$text")]
    pub text: Option<String>,
}

#[derive(Serialize, Deserialize)]
#[serde(deny_unknown_fields)]
pub struct B {
    pub p: String,
    #[serde(rename = "r")]
    pub n_r: String,
    #[serde(rename = "type")]
    pub b_type: String,
}

#[derive(Serialize, Deserialize)]
#[serde(deny_unknown_fields)]
pub struct NameD {
    pub p: Option<String>,
    pub d: Option<Vec<DD>>,
}

#[derive(Serialize, Deserialize)]
#[serde(deny_unknown_fields)]
pub struct DD {
    pub id: Option<String>,
    #[serde(rename = "type")]
    pub d_type: Option<String>,
    pub q: Option<String>,
    #[serde(rename = "r")]
    pub n_r: Option<String>,
    #[serde(rename = "$text")]
    pub text: Option<String>,
}

pub fn de(doc: &str) -> Result<(), String> { serde_xml_rs::from_str::<Name>(doc).map(|_| ()).map_err(|e| e.to_string()) }
}
// variant c: rendered with Debug in the derive string, to inspect the value
pub mod c {
use serde::{Deserialize, Serialize};

#[derive(Serialize, Deserialize, Debug)]
pub struct Name {
    pub q: Option<String>,
    pub p: Option<String>,
    pub c: Vec<NameC>,
    pub d: Option<NameD>,
}

#[derive(Serialize, Deserialize, Debug)]
pub struct NameC {
    #[serde(rename = "type")]
    pub c_type: Option<String>,
    pub id: Option<String>,
    pub p: Option<String>,
    pub q: Option<String>,
    #[serde(rename = "r")]
    pub n_r: Option<String>,
    #[serde(rename = "$text")]
    pub text: Option<String>,
    pub c: Option<Vec<CC>>,
    pub b: Option<B>,
}

#[derive(Serialize, Deserialize, Debug)]
pub struct CC {
    pub id: String,
    #[serde(rename = "type")]
    pub c_type: String,
    #[serde(rename = "r")]
    pub n_r: Option<String>,
    pub q: String,
    pub p: Option<String>,
    #[serde(rename = "$text")]
    pub text: Option<String>,
}

#[derive(Serialize, Deserialize, Debug)]
pub struct B {
    pub p: String,
    #[serde(rename = "r")]
    pub n_r: String,
    #[serde(rename = "type")]
    pub b_type: String,
}

#[derive(Serialize, Deserialize, Debug)]
pub struct NameD {
    pub p: Option<String>,
    pub d: Option<Vec<DD>>,
}

#[derive(Serialize, Deserialize, Debug)]
pub struct DD {
    pub id: Option<String>,
    #[serde(rename = "type")]
    pub d_type: Option<String>,
    pub q: Option<String>,
    #[serde(rename = "r")]
    pub n_r: Option<String>,
    #[serde(rename = "$text")]
    pub text: Option<String>,
}

pub fn de(doc: &str) -> Result<String, String> { serde_xml_rs::from_str::<Name>(doc).map(|v| format!("{:?}", v)).map_err(|e| e.to_string()) }
}
pub const DOCS: &[&str] = &[
    "<name><c type=\"v001\" id=\"v002\"><c id=\"v003\" type=\"v004\" n:r=\"v005\" q=\"v006\"/><c id=\"v007\" type=\"v008\" q=\"v009\" p=\"v010\">t011</c></c><c p=\"v012\"></c></name>",
    "<name q=\"v001\"><c q=\"v002\">t003</c><c q=\"v004\" id=\"v005\" p=\"v006\">t007 &amp; more<![CDATA[c008]]></c><d/></name>",
    "<?xml version=\"1.0\" encoding=\"UTF-8\"?><name p=\"v001\" q=\"v002\"><c q=\"v003\"/><c n:r=\"v004\"><b p=\"v005\" n:r=\"v006\" type=\"v007\"/></c><d p=\"v008\"><d id=\"v009\"/><d type=\"v010\" q=\"v011\">t012 &amp; more</d><d n:r=\"v013\"><![CDATA[c014]]><![CDATA[c015]]></d></d></name>",
];
pub const VALUES: &[&[(&str, &str)]] = &[
    &[("attr", "v001"), ("attr", "v002"), ("attr", "v003"), ("attr", "v004"), ("attr", "v005"), ("attr", "v006"), ("attr", "v007"), ("attr", "v008"), ("attr", "v009"), ("attr", "v010"), ("text", "t011"), ("attr", "v012"), ],
    &[("attr", "v001"), ("attr", "v002"), ("text", "t003"), ("attr", "v004"), ("attr", "v005"), ("attr", "v006"), ("text", "t007 & more"), ("text", "c008"), ],
    &[("attr", "v001"), ("attr", "v002"), ("attr", "v003"), ("attr", "v004"), ("attr", "v005"), ("attr", "v006"), ("attr", "v007"), ("attr", "v008"), ("attr", "v009"), ("attr", "v010"), ("attr", "v011"), ("text", "t012 & more"), ("attr", "v013"), ("text", "c014"), ("text", "c015"), ],
];
pub fn run() { crate::report(59, DOCS, VALUES, a::de, b::de, c::de); }
