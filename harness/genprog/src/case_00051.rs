#![allow(dead_code, non_snake_case, non_camel_case_types, unused_imports)]
// variant a: the rendered source unchanged
pub mod a {
use serde::{Deserialize, Serialize};

#[derive(Serialize, Deserialize)]
pub struct C {
    pub q: String,
    #[serde(rename = "r")]
    pub n_r: String,
    #[serde(rename = "type")]
    pub c_type: String,
    pub id: String,
    #[serde(rename = "$text")]
    pub text: Option<String>,
    pub d: D,
    pub c: CC,
}

#[derive(Serialize, Deserialize)]
pub struct D {
    #[serde(rename = "r")]
    pub n_r: String,
    #[serde(rename = "type")]
    pub d_type: String,
    pub p: String,
}

#[derive(Serialize, Deserialize)]
pub struct CC {
    pub id: String,
    pub p: String,
    #[serde(rename = "$text")]
    pub text: Option<String>,
}

pub fn de(doc: &str) -> Result<(), String> { serde_xml_rs::from_str::<C>(doc).map(|_| ()).map_err(|e| e.to_string()) }
}
// variant b: every struct additionally denies unknown fields
pub mod b {
use serde::{Deserialize, Serialize};

#[derive(Serialize, Deserialize)]
#[serde(deny_unknown_fields)]
pub struct C {
    pub q: String,
    #[serde(rename = "r")]
    pub n_r: String,
    #[serde(rename = "type")]
    pub c_type: String,
    pub id: String,
    #[serde(rename = "$text")]
    pub text: Option<String>,
    pub d: D,
    pub c: CC,
}

#[derive(Serialize, Deserialize)]
#[serde(deny_unknown_fields)]
pub struct D {
    #[serde(rename = "r")]
    pub n_r: String,
    #[serde(rename = "type")]
    pub d_type: String,
    pub p: String,
}

#[derive(Serialize, Deserialize)]
#[serde(deny_unknown_fields)]
pub struct CC {
    pub id: String,
    pub p: String,
    #[serde(rename = "$text")]
    pub text: Option<String>,
}

pub fn de(doc: &str) -> Result<(), String> { serde_xml_rs::from_str::<C>(doc).map(|_| ()).map_err(|e| e.to_string()) }
}
// variant c: rendered with Debug in the derive string, to inspect the value
pub mod c {
use serde::{Deserialize, Serialize};

#[derive(Serialize, Deserialize, Debug)]
pub struct C {
    pub q: String,
    #[serde(rename = "r")]
    pub n_r: String,
    #[serde(rename = "type")]
    pub c_type: String,
    pub id: String,
    #[serde(rename = "$text")]
    pub text: Option<String>,
    pub d: D,
    pub c: CC,
}

#[derive(Serialize, Deserialize, Debug)]
pub struct D {
    #[serde(rename = "r")]
    pub n_r: String,
    #[serde(rename = "type")]
    pub d_type: String,
    pub p: String,
}

#[derive(Serialize, Deserialize, Debug)]
pub struct CC {
    pub id: String,
    pub p: String,
    #[serde(rename = "$text")]
    pub text: Option<String>,
}

pub fn de(doc: &str) -> Result<String, String> { serde_xml_rs::from_str::<C>(doc).map(|v| format!("{:?}", v)).map_err(|e| e.to_string()) }
}
pub const DOCS: &[&str] = &[
    "<?target?><c q=\"v001\" n:r=\"v002\" type=\"v003\" id=\"v004\">\n    <d n:r=\"v005\" type=\"v006\" p=\"v007\"></d>\n    <?pi some data?><c id=\"v008\" p=\"v009\">t010</c>\n  </c><!-- c -->\n",
];
pub const VALUES: &[&[(&str, &str)]] = &[
    &[("attr", "v001"), ("attr", "v002"), ("attr", "v003"), ("attr", "v004"), ("attr", "v005"), ("attr", "v006"), ("attr", "v007"), ("attr", "v008"), ("attr", "v009"), ("text", "t010"), ],
];
pub fn run() { crate::report(51, DOCS, VALUES, a::de, b::de, c::de); }
