#![allow(dead_code, non_snake_case, non_camel_case_types, unused_imports)]
// variant a: the rendered source unchanged
pub mod a {
use serde::{Deserialize, Serialize};

#[derive(Serialize, Deserialize)]
pub struct R {
    pub q: String,
    pub p: Option<String>,
    pub a: Option<Vec<A>>,
}

#[derive(Serialize, Deserialize)]
pub struct A {
    pub p: String,
    pub q: String,
    pub s: Option<String>,
}

pub fn de(doc: &str) -> Result<(), String> { serde_xml_rs::from_str::<R>(doc).map(|_| ()).map_err(|e| e.to_string()) }
}
// variant b: every struct additionally denies unknown fields
pub mod b {
use serde::{Deserialize, Serialize};

#[derive(Serialize, Deserialize)]
#[serde(deny_unknown_fields)]
pub struct R {
    pub q: String,
    pub p: Option<String>,
    pub a: Option<Vec<A>>,
}

#[derive(Serialize, Deserialize)]
#[serde(deny_unknown_fields)]
pub struct A {
    pub p: String,
    pub q: String,
    pub s: Option<String>,
}

pub fn de(doc: &str) -> Result<(), String> { serde_xml_rs::from_str::<R>(doc).map(|_| ()).map_err(|e| e.to_string()) }
}
// variant c: rendered with Debug in the derive string, to inspect the value
pub mod c {
use serde::{Deserialize, Serialize};

#[derive(Serialize, Deserialize, Debug)]
pub struct R {
    pub q: String,
    pub p: Option<String>,
    pub a: Option<Vec<A>>,
}

#[derive(Serialize, Deserialize, Debug)]
pub struct A {
    pub p: String,
    pub q: String,
    pub s: Option<String>,
}

pub fn de(doc: &str) -> Result<String, String> { serde_xml_rs::from_str::<R>(doc).map(|v| format!("{:?}", v)).map_err(|e| e.to_string()) }
}
pub const DOCS: &[&str] = &[
    "<r q=\"v001\" p=\"v002\"><a p=\"v003\" q=\"v004\"/><a s=\"v005\" q=\"v006\" p=\"v007\"></a></r>",
    "<r q=\"v001\"></r>",
];
pub const VALUES: &[&[(&str, &str)]] = &[
    &[("attr", "v001"), ("attr", "v002"), ("attr", "v003"), ("attr", "v004"), ("attr", "v005"), ("attr", "v006"), ("attr", "v007"), ],
    &[("attr", "v001"), ],
];
pub fn run() { crate::report(19, DOCS, VALUES, a::de, b::de, c::de); }
