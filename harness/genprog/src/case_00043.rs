#![allow(dead_code, non_snake_case, non_camel_case_types, unused_imports)]
// variant a: the rendered source unchanged
pub mod a {
use serde::{Deserialize, Serialize};

#[derive(Serialize, Deserialize)]
pub struct B {
    #[serde(rename = "type")]
    pub b_type: String,
    #[serde(rename = "r")]
    pub n_r: String,
    pub c: BC,
    pub b: BB,
}

#[derive(Serialize, Deserialize)]
pub struct BC {
    pub q: String,
    #[serde(rename = "$text")]
    pub text: Option<String>,
}

#[derive(Serialize, Deserialize)]
pub struct BB {
    #[serde(rename = "r")]
    pub n_r: String,
    #[serde(rename = "type")]
    pub b_type: String,
    pub p: String,
    pub b: BBB,
}

#[derive(Serialize, Deserialize)]
pub struct BBB {
    pub p: String,
    pub c: BBBC,
}

#[derive(Serialize, Deserialize)]
pub struct BBBC {
    pub id: String,
}

pub fn de(doc: &str) -> Result<(), String> { serde_xml_rs::from_str::<B>(doc).map(|_| ()).map_err(|e| e.to_string()) }
}
// variant b: every struct additionally denies unknown fields
pub mod b {
use serde::{Deserialize, Serialize};

#[derive(Serialize, Deserialize)]
#[serde(deny_unknown_fields)]
pub struct B {
    #[serde(rename = "type")]
    pub b_type: String,
    #[serde(rename = "r")]
    pub n_r: String,
    pub c: BC,
    pub b: BB,
}

#[derive(Serialize, Deserialize)]
#[serde(deny_unknown_fields)]
pub struct BC {
    pub q: String,
    #[serde(rename = "$text")]
    pub text: Option<String>,
}

#[derive(Serialize, Deserialize)]
#[serde(deny_unknown_fields)]
pub struct BB {
    #[serde(rename = "r")]
    pub n_r: String,
    #[serde(rename = "type")]
    pub b_type: String,
    pub p: String,
    pub b: BBB,
}

#[derive(Serialize, Deserialize)]
#[serde(deny_unknown_fields)]
pub struct BBB {
    pub p: String,
    pub c: BBBC,
}

#[derive(Serialize, Deserialize)]
#[serde(deny_unknown_fields)]
pub struct BBBC {
    pub id: String,
}

pub fn de(doc: &str) -> Result<(), String> { serde_xml_rs::from_str::<B>(doc).map(|_| ()).map_err(|e| e.to_string()) }
}
// variant c: rendered with Debug in the derive string, to inspect the value
pub mod c {
use serde::{Deserialize, Serialize};

#[derive(Serialize, Deserialize, Debug)]
pub struct B {
    #[serde(rename = "type")]
    pub b_type: String,
    #[serde(rename = "r")]
    pub n_r: String,
    pub c: BC,
    pub b: BB,
}

#[derive(Serialize, Deserialize, Debug)]
pub struct BC {
    pub q: String,
    #[serde(rename = "$text")]
    pub text: Option<String>,
}

#[derive(Serialize, Deserialize, Debug)]
pub struct BB {
    #[serde(rename = "r")]
    pub n_r: String,
    #[serde(rename = "type")]
    pub b_type: String,
    pub p: String,
    pub b: BBB,
}

#[derive(Serialize, Deserialize, Debug)]
pub struct BBB {
    pub p: String,
    pub c: BBBC,
}

#[derive(Serialize, Deserialize, Debug)]
pub struct BBBC {
    pub id: String,
}

pub fn de(doc: &str) -> Result<String, String> { serde_xml_rs::from_str::<B>(doc).map(|v| format!("{:?}", v)).map_err(|e| e.to_string()) }
}
pub const DOCS: &[&str] = &[
    "<!DOCTYPE b><b type=\"v001\" n:r=\"v002\"><c q=\"v003\"><![CDATA[c004]]></c><b n:r=\"v005\" type=\"v006\" p=\"v007\"><b p=\"v008\"><c id=\"v009\"/></b></b></b>",
];
pub const VALUES: &[&[(&str, &str)]] = &[
    &[("attr", "v001"), ("attr", "v002"), ("attr", "v003"), ("text", "c004"), ("attr", "v005"), ("attr", "v006"), ("attr", "v007"), ("attr", "v008"), ("attr", "v009"), ],
];
pub fn run() { crate::report(43, DOCS, VALUES, a::de, b::de, c::de); }
