#![allow(dead_code, non_snake_case, non_camel_case_types, unused_imports)]
// variant a: the rendered source unchanged
pub mod a {
use serde::{Deserialize, Serialize};

#[derive(Serialize, Deserialize)]
pub struct Type {
    #[serde(rename = "x-y")]
    pub x_y: String,
    #[serde(rename = "r")]
    pub n_r: String,
    #[serde(rename = "$text")]
    pub text: Option<String>,
}

pub fn de(doc: &str) -> Result<(), String> { serde_xml_rs::from_str::<Type>(doc).map(|_| ()).map_err(|e| e.to_string()) }
}
// variant b: every struct additionally denies unknown fields
pub mod b {
use serde::{Deserialize, Serialize};

#[derive(Serialize, Deserialize)]
#[serde(deny_unknown_fields)]
pub struct Type {
    #[serde(rename = "x-y")]
    pub x_y: String,
    #[serde(rename = "r")]
    pub n_r: String,
    #[serde(rename = "$text")]
    pub text: Option<String>,
}

pub fn de(doc: &str) -> Result<(), String> { serde_xml_rs::from_str::<Type>(doc).map(|_| ()).map_err(|e| e.to_string()) }
}
// variant c: rendered with Debug in the derive string, to inspect the value
pub mod c {
use serde::{Deserialize, Serialize};

#[derive(Serialize, Deserialize, Debug)]
pub struct Type {
    #[serde(rename = "x-y")]
    pub x_y: String,
    #[serde(rename = "r")]
    pub n_r: String,
    #[serde(rename = "$text")]
    pub text: Option<String>,
}

pub fn de(doc: &str) -> Result<String, String> { serde_xml_rs::from_str::<Type>(doc).map(|v| format!("{:?}", v)).map_err(|e| e.to_string()) }
}
pub const DOCS: &[&str] = &[
    "<?xml version=\"1.0\" encoding=\"UTF-8\"?>\n<type x-y=\"v001\" n:r=\"v002\">t003 &amp; more</type>\n",
];
pub const VALUES: &[&[(&str, &str)]] = &[
    &[("attr", "v001"), ("attr", "v002"), ("text", "t003 & more"), ],
];
pub fn run() { crate::report(36, DOCS, VALUES, a::de, b::de, c::de); }
