#![allow(dead_code, non_snake_case, non_camel_case_types, unused_imports)]
// variant a: the rendered source unchanged
pub mod a {
use serde::{Deserialize, Serialize};

#[derive(Serialize, Deserialize)]
pub struct C {
    #[serde(rename = "r")]
    pub n_r: String,
    #[serde(rename = "$text")]
    pub text: Option<String>,
    pub d: D,
    pub c: Vec<CC>,
}

#[derive(Serialize, Deserialize)]
pub struct D {
}

#[derive(Serialize, Deserialize)]
pub struct CC {
    pub q: Option<String>,
    pub p: Option<String>,
    pub id: Option<String>,
    #[serde(rename = "r")]
    pub n_r: Option<String>,
    #[serde(rename = "$text")]
    pub text: Option<String>,
}

pub fn de(doc: &str) -> Result<(), String> { serde_xml_rs::from_str::<C>(doc).map(|_| ()).map_err(|e| e.to_string()) }
}
// variant b: every struct additionally denies unknown fields
pub mod b {
use serde::{Deserialize, Serialize};

#[derive(Serialize, Deserialize)]
#[serde(deny_unknown_fields)]
pub struct C {
    #[serde(rename = "r")]
    pub n_r: String,
    #[serde(rename = "$text")]
    pub text: Option<String>,
    pub d: D,
    pub c: Vec<CC>,
}

#[derive(Serialize, Deserialize)]
#[serde(deny_unknown_fields)]
pub struct D {
}

#[derive(Serialize, Deserialize)]
#[serde(deny_unknown_fields)]
pub struct CC {
    pub q: Option<String>,
    pub p: Option<String>,
    pub id: Option<String>,
    #[serde(rename = "r")]
    pub n_r: Option<String>,
    #[serde(rename = "$text")]
    pub text: Option<String>,
}

pub fn de(doc: &str) -> Result<(), String> { serde_xml_rs::from_str::<C>(doc).map(|_| ()).map_err(|e| e.to_string()) }
}
// variant c: rendered with Debug in the derive string, to inspect the value
pub mod c {
use serde::{Deserialize, Serialize};

#[derive(Serialize, Deserialize, Debug)]
pub struct C {
    #[serde(rename = "r")]
    pub n_r: String,
    #[serde(rename = "$text")]
    pub text: Option<String>,
    pub d: D,
    pub c: Vec<CC>,
}

#[derive(Serialize, Deserialize, Debug)]
pub struct D {
}

#[derive(Serialize, Deserialize, Debug)]
pub struct CC {
    pub q: Option<String>,
    pub p: Option<String>,
    pub id: Option<String>,
    #[serde(rename = "r")]
    pub n_r: Option<String>,
    #[serde(rename = "$text")]
    pub text: Option<String>,
}

pub fn de(doc: &str) -> Result<String, String> { serde_xml_rs::from_str::<C>(doc).map(|v| format!("{:?}", v)).map_err(|e| e.to_string()) }
}
pub const DOCS: &[&str] = &[
    "<!DOCTYPE c><c n:r=\"v001\">\n    <d/>\n    <c q=\"v002\"/>\n    <c p=\"v003\" id=\"v004\" n:r=\"v005\">t006 &amp; moret007 &amp; more</c>\n  </c>\n",
];
pub const VALUES: &[&[(&str, &str)]] = &[
    &[("attr", "v001"), ("attr", "v002"), ("attr", "v003"), ("attr", "v004"), ("attr", "v005"), ("text", "t006 & moret007 & more"), ],
];
pub fn run() { crate::report(57, DOCS, VALUES, a::de, b::de, c::de); }
