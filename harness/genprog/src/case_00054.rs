#![allow(dead_code, non_snake_case, non_camel_case_types, unused_imports)]
// variant a: the rendered source unchanged
pub mod a {
use serde::{Deserialize, Serialize};

#[derive(Serialize, Deserialize)]
pub struct É {
    pub id: String,
    #[serde(rename = "x-y")]
    pub x_y: Option<String>,
    #[serde(rename = "type")]
    pub é_type: String,
    pub p: Option<String>,
    #[serde(rename = "$text")]
    pub text: Option<String>,
    #[serde(rename = "Total")]
    pub total: Option<Vec<Total>>,
    #[serde(rename = "Item")]
    pub item: Option<Item>,
}

#[derive(Serialize, Deserialize)]
pub struct Total {
    pub q: Option<String>,
    #[serde(rename = "r")]
    pub n_r: Option<String>,
    #[serde(rename = "type")]
    pub total_type: Option<String>,
    #[serde(rename = "$text")]
    pub text: Option<String>,
}

#[derive(Serialize, Deserialize)]
pub struct Item {
    pub id: String,
    #[serde(rename = "type")]
    pub item_type: String,
    pub p: String,
}

pub fn de(doc: &str) -> Result<(), String> { serde_xml_rs::from_str::<É>(doc).map(|_| ()).map_err(|e| e.to_string()) }
}
// variant b: every struct additionally denies unknown fields
pub mod b {
use serde::{Deserialize, Serialize};

#[derive(Serialize, Deserialize)]
#[serde(deny_unknown_fields)]
pub struct É {
    pub id: String,
    #[serde(rename = "x-y")]
    pub x_y: Option<String>,
    #[serde(rename = "type")]
    pub é_type: String,
    pub p: Option<String>,
    #[serde(rename = "$text")]
    pub text: Option<String>,
    #[serde(rename = "Total")]
    pub total: Option<Vec<Total>>,
    #[serde(rename = "Item")]
    pub item: Option<Item>,
}

#[derive(Serialize, Deserialize)]
#[serde(deny_unknown_fields)]
pub struct Total {
    pub q: Option<String>,
    #[serde(rename = "r")]
    pub n_r: Option<String>,
    #[serde(rename = "type")]
    pub total_type: Option<String>,
    #[serde(rename = "$text")]
    pub text: Option<String>,
}

#[derive(Serialize, Deserialize)]
#[serde(deny_unknown_fields)]
pub struct Item {
    pub id: String,
    #[serde(rename = "type")]
    pub item_type: String,
    pub p: String,
}

pub fn de(doc: &str) -> Result<(), String> { serde_xml_rs::from_str::<É>(doc).map(|_| ()).map_err(|e| e.to_string()) }
}
// variant c: rendered with Debug in the derive string, to inspect the value
pub mod c {
use serde::{Deserialize, Serialize};

#[derive(Serialize, Deserialize, Debug)]
pub struct É {
    pub id: String,
    #[serde(rename = "x-y")]
    pub x_y: Option<String>,
    #[serde(rename = "type")]
    pub é_type: String,
    pub p: Option<String>,
    #[serde(rename = "$text")]
    pub text: Option<String>,
    #[serde(rename = "Total")]
    pub total: Option<Vec<Total>>,
    #[serde(rename = "Item")]
    pub item: Option<Item>,
}

#[derive(Serialize, Deserialize, Debug)]
pub struct Total {
    pub q: Option<String>,
    #[serde(rename = "r")]
    pub n_r: Option<String>,
    #[serde(rename = "type")]
    pub total_type: Option<String>,
    #[serde(rename = "$text")]
    pub text: Option<String>,
}

#[derive(Serialize, Deserialize, Debug)]
pub struct Item {
    pub id: String,
    #[serde(rename = "type")]
    pub item_type: String,
    pub p: String,
}

pub fn de(doc: &str) -> Result<String, String> { serde_xml_rs::from_str::<É>(doc).map(|v| format!("{:?}", v)).map_err(|e| e.to_string()) }
}
pub const DOCS: &[&str] = &[
    "<é id=\"v001\" x-y=\"v002\" type=\"v003\">\n    <Total>t004 &amp; more</Total>\n    <!--x--><!--y--><Total q=\"v005\" n:r=\"v006\" type=\"v007\"/>\n  </é>\n",
    "<é p=\"v001\" id=\"v002\" type=\"v003\">\n    <Item id=\"v004\" type=\"v005\" p=\"v006\"></Item>\n  </é>\n",
];
pub const VALUES: &[&[(&str, &str)]] = &[
    &[("attr", "v001"), ("attr", "v002"), ("attr", "v003"), ("text", "t004 & more"), ("attr", "v005"), ("attr", "v006"), ("attr", "v007"), ],
    &[("attr", "v001"), ("attr", "v002"), ("attr", "v003"), ("attr", "v004"), ("attr", "v005"), ("attr", "v006"), ],
];
pub fn run() { crate::report(54, DOCS, VALUES, a::de, b::de, c::de); }
