#![allow(dead_code, non_snake_case, non_camel_case_types, unused_imports)]
// variant a: the rendered source unchanged
pub mod a {
use serde::{Deserialize, Serialize};

#[derive(Serialize, Deserialize)]
pub struct C {
    pub q: Option<String>,
    #[serde(rename = "type")]
    pub c_type: Option<String>,
    #[serde(rename = "$text")]
    pub text: Option<String>,
    pub c: Option<CC>,
}

#[derive(Serialize, Deserialize)]
pub struct CC {
    #[serde(rename = "r")]
    pub n_r: Option<String>,
    #[serde(rename = "$text")]
    pub text: Option<String>,
}

pub fn de(doc: &str) -> Result<(), String> { serde_xml_rs::from_str::<C>(doc).map(|_| ()).map_err(|e| e.to_string()) }
}
// variant b: every struct additionally denies unknown fields
pub mod b {
use serde::{Deserialize, Serialize};

#[derive(Serialize, Deserialize)]
#[serde(deny_unknown_fields)]
pub struct C {
    pub q: Option<String>,
    #[serde(rename = "type")]
    pub c_type: Option<String>,
    #[serde(rename = "$text")]
    pub text: Option<String>,
    pub c: Option<CC>,
}

#[derive(Serialize, Deserialize)]
#[serde(deny_unknown_fields)]
pub struct CC {
    #[serde(rename = "r")]
    pub n_r: Option<String>,
    #[serde(rename = "$text")]
    pub text: Option<String>,
}

pub fn de(doc: &str) -> Result<(), String> { serde_xml_rs::from_str::<C>(doc).map(|_| ()).map_err(|e| e.to_string()) }
}
// variant c: rendered with Debug in the derive string, to inspect the value
pub mod c {
use serde::{Deserialize, Serialize};

#[derive(Serialize, Deserialize, Debug)]
pub struct C {
    pub q: Option<String>,
    #[serde(rename = "type")]
    pub c_type: Option<String>,
    #[serde(rename = "$text")]
    pub text: Option<String>,
    pub c: Option<CC>,
}

#[derive(Serialize, Deserialize, Debug)]
pub struct CC {
    #[serde(rename = "r")]
    pub n_r: Option<String>,
    #[serde(rename = "$text")]
    pub text: Option<String>,
}

pub fn de(doc: &str) -> Result<String, String> { serde_xml_rs::from_str::<C>(doc).map(|v| format!("{:?}", v)).map_err(|e| e.to_string()) }
}
pub const DOCS: &[&str] = &[
    "<?xml version=\"1.0\" encoding=\"UTF-8\"?><c q=\"v001\">t002t003</c>",
    "<!DOCTYPE c><c q=\"v001\" type=\"v002\"><c n:r=\"v003\"/></c><?pi some data?>",
    "<c><c>t001t002</c></c>",
];
pub const VALUES: &[&[(&str, &str)]] = &[
    &[("attr", "v001"), ("text", "t002t003"), ],
    &[("attr", "v001"), ("attr", "v002"), ("attr", "v003"), ],
    &[("text", "t001t002"), ],
];
pub fn run() { crate::report(49, DOCS, VALUES, a::de, b::de, c::de); }
