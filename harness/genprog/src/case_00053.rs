#![allow(dead_code, non_snake_case, non_camel_case_types, unused_imports)]
// variant a: the rendered source unchanged
pub mod a {
use serde::{Deserialize, Serialize};

#[derive(Serialize, Deserialize)]
pub struct Name {
    #[serde(rename = "r")]
    pub n_r: Option<String>,
    pub p: Option<String>,
    #[serde(rename = "type")]
    pub name_type: Option<String>,
    pub d: Option<Vec<D>>,
    pub name: Option<Vec<NameName>>,
}

#[derive(Serialize, Deserialize)]
pub struct D {
    pub q: Option<String>,
    #[serde(rename = "$text")]
    pub text: Option<String>,
    pub c: Option<DC>,
}

#[derive(Serialize, Deserialize)]
pub struct DC {
    #[serde(rename = "r")]
    pub n_r: String,
    #[serde(rename = "type")]
    pub c_type: String,
    pub p: String,
    #[serde(rename = "$text")]
    pub text: Option<String>,
}

#[derive(Serialize, Deserialize)]
pub struct NameName {
    #[serde(rename = "r")]
    pub n_r: Option<String>,
    pub p: Option<String>,
    #[serde(rename = "type")]
    pub name_type: Option<String>,
    pub q: Option<String>,
    #[serde(rename = "$text")]
    pub text: Option<String>,
    pub name: Option<NameNameName>,
    pub c: Option<NameC>,
}

#[derive(Serialize, Deserialize)]
pub struct NameNameName {
    #[serde(rename = "type")]
    pub name_type: String,
}

#[derive(Serialize, Deserialize)]
pub struct NameC {
    #[serde(rename = "type")]
    pub c_type: String,
    #[serde(rename = "r")]
    pub n_r: String,
    pub id: String,
    #[serde(rename = "$text")]
    pub text: Option<String>,
}

pub fn de(doc: &str) -> Result<(), String> { serde_xml_rs::from_str::<Name>(doc).map(|_| ()).map_err(|e| e.to_string()) }
}
// variant b: every struct additionally denies unknown fields
pub mod b {
use serde::{Deserialize, Serialize};

#[derive(Serialize, Deserialize)]
#[serde(deny_unknown_fields)]
pub struct Name {
    #[serde(rename = "r")]
    pub n_r: Option<String>,
    pub p: Option<String>,
    #[serde(rename = "type")]
    pub name_type: Option<String>,
    pub d: Option<Vec<D>>,
    pub name: Option<Vec<NameName>>,
}

#[derive(Serialize, Deserialize)]
#[serde(deny_unknown_fields)]
pub struct D {
    pub q: Option<String>,
    #[serde(rename = "$text")]
    pub text: Option<String>,
    pub c: Option<DC>,
}

#[derive(Serialize, Deserialize)]
#[serde(deny_unknown_fields)]
pub struct DC {
    #[serde(rename = "r")]
    pub n_r: String,
    #[serde(rename = "type")]
    pub c_type: String,
    pub p: String,
    #[serde(rename = "$text")]
    pub text: Option<String>,
}

#[derive(Serialize, Deserialize)]
#[serde(deny_unknown_fields)]
pub struct NameName {
    #[serde(rename = "r")]
    pub n_r: Option<String>,
    pub p: Option<String>,
    #[serde(rename = "type")]
    pub name_type: Option<String>,
    pub q: Option<String>,
    #[serde(rename = "$text")]
    pub text: Option<String>,
    pub name: Option<NameNameName>,
    pub c: Option<NameC>,
}

#[derive(Serialize, Deserialize)]
#[serde(deny_unknown_fields)]
pub struct NameNameName {
    #[serde(rename = "type")]
    pub name_type: String,
}

#[derive(Serialize, Deserialize)]
#[serde(deny_unknown_fields)]
pub struct NameC {
    #[serde(rename = "type")]
    pub c_type: String,
    #[serde(rename = "r")]
    pub n_r: String,
    pub id: String,
    #[serde(rename = "$text")]
    pub text: Option<String>,
}

pub fn de(doc: &str) -> Result<(), String> { serde_xml_rs::from_str::<Name>(doc).map(|_| ()).map_err(|e| e.to_string()) }
}
// variant c: rendered with Debug in the derive string, to inspect the value
pub mod c {
use serde::{Deserialize, Serialize};

#[derive(Serialize, Deserialize, Debug)]
pub struct Name {
    #[serde(rename = "r")]
    pub n_r: Option<String>,
    pub p: Option<String>,
    #[serde(rename = "type")]
    pub name_type: Option<String>,
    pub d: Option<Vec<D>>,
    pub name: Option<Vec<NameName>>,
}

#[derive(Serialize, Deserialize, Debug)]
pub struct D {
    pub q: Option<String>,
    #[serde(rename = "$text")]
    pub text: Option<String>,
    pub c: Option<DC>,
}

#[derive(Serialize, Deserialize, Debug)]
pub struct DC {
    #[serde(rename = "r")]
    pub n_r: String,
    #[serde(rename = "type")]
    pub c_type: String,
    pub p: String,
    #[serde(rename = "$text")]
    pub text: Option<String>,
}

#[derive(Serialize, Deserialize, Debug)]
pub struct NameName {
    #[serde(rename = "r")]
    pub n_r: Option<String>,
    pub p: Option<String>,
    #[serde(rename = "type")]
    pub name_type: Option<String>,
    pub q: Option<String>,
    #[serde(rename = "$text")]
    pub text: Option<String>,
    pub name: Option<NameNameName>,
    pub c: Option<NameC>,
}

#[derive(Serialize, Deserialize, Debug)]
pub struct NameNameName {
    #[serde(rename = "type")]
    pub name_type: String,
}

#[derive(Serialize, Deserialize, Debug)]
pub struct NameC {
    #[serde(rename = "type")]
    pub c_type: String,
    #[serde(rename = "r")]
    pub n_r: String,
    pub id: String,
    #[serde(rename = "$text")]
    pub text: Option<String>,
}

pub fn de(doc: &str) -> Result<String, String> { serde_xml_rs::from_str::<Name>(doc).map(|v| format!("{:?}", v)).map_err(|e| e.to_string()) }
}
pub const DOCS: &[&str] = &[
    "<?xml version=\"1.0\" encoding=\"UTF-8\"?><!DOCTYPE name><name n:r=\"v001\" p=\"v002\"><d>t003<![CDATA[c004]]></d><d q=\"v005\"><c n:r=\"v006\" type=\"v007\" p=\"v008\">t009t010</c></d></name>",
    "<name><name n:r=\"v001\" p=\"v002\" type=\"v003\">t004t005 &amp; more</name></name>",
    "<?xml version=\"1.0\" encoding=\"UTF-8\"?><name type=\"v001\"><name p=\"v002\" n:r=\"v003\"><name type=\"v004\"></name></name><name q=\"v005\"><c type=\"v006\" n:r=\"v007\" id=\"v008\">t009</c></name></name><?target?>",
];
pub const VALUES: &[&[(&str, &str)]] = &[
    &[("attr", "v001"), ("attr", "v002"), ("text", "t003"), ("text", "c004"), ("attr", "v005"), ("attr", "v006"), ("attr", "v007"), ("attr", "v008"), ("text", "t009t010"), ],
    &[("attr", "v001"), ("attr", "v002"), ("attr", "v003"), ("text", "t004t005 & more"), ],
    &[("attr", "v001"), ("attr", "v002"), ("attr", "v003"), ("attr", "v004"), ("attr", "v005"), ("attr", "v006"), ("attr", "v007"), ("attr", "v008"), ("text", "t009"), ],
];
pub fn run() { crate::report(53, DOCS, VALUES, a::de, b::de, c::de); }
