#![allow(dead_code, non_snake_case, non_camel_case_types, unused_imports)]
// variant a: the rendered source unchanged
pub mod a {
use serde::{Deserialize, Serialize};

#[derive(Serialize, Deserialize)]
pub struct Type {
    pub id: String,
    #[serde(rename = "r")]
    pub n_r: Option<String>,
    #[serde(rename = "x-y")]
    pub x_y: String,
    #[serde(rename = "type")]
    pub type_type_attr: Option<String>,
    pub p: Option<String>,
    #[serde(rename = "Item")]
    pub item: Option<Vec<TypeItem>>,
    pub text: Option<TypeText>,
    pub b: Option<TypeB>,
    #[serde(rename = "type")]
    pub type_type: Option<Vec<TypeType>>,
}

#[derive(Serialize, Deserialize)]
pub struct TypeItem {
    #[serde(rename = "r")]
    pub n_r: Option<String>,
    pub q: Option<String>,
    pub p: Option<String>,
    pub id: Option<String>,
    #[serde(rename = "type")]
    pub item_type: TypeItemType,
    #[serde(rename = "Item")]
    pub item: Option<Vec<TypeItemItem>>,
    pub b: Option<ItemB>,
}

#[derive(Serialize, Deserialize)]
pub struct TypeItemType {
    #[serde(rename = "r")]
    pub n_r: Option<String>,
    #[serde(rename = "type")]
    pub type_type: Option<String>,
    #[serde(rename = "$text")]
    pub text: Option<String>,
}

#[derive(Serialize, Deserialize)]
pub struct TypeItemItem {
    #[serde(rename = "r")]
    pub n_r: Option<String>,
    #[serde(rename = "type")]
    pub item_type: Option<String>,
    #[serde(rename = "x-y")]
    pub x_y: Option<String>,
    pub id: Option<String>,
    #[serde(rename = "$text")]
    pub text: Option<String>,
}

#[derive(Serialize, Deserialize)]
pub struct ItemB {
    pub q: String,
    #[serde(rename = "x-y")]
    pub x_y: String,
    #[serde(rename = "r")]
    pub n_r: String,
    #[serde(rename = "$text")]
    pub text: Option<String>,
}

#[derive(Serialize, Deserialize)]
pub struct TypeText {
    pub q: String,
    #[serde(rename = "type")]
    pub text_type: String,
    #[serde(rename = "x-y")]
    pub x_y: String,
    #[serde(rename = "$text")]
    pub text: Option<String>,
}

#[derive(Serialize, Deserialize)]
pub struct TypeB {
    #[serde(rename = "r")]
    pub n_r: String,
    #[serde(rename = "x-y")]
    pub x_y: String,
    pub text: Vec<TypeBText>,
    #[serde(rename = "type")]
    pub b_type: TypeBType,
}

#[derive(Serialize, Deserialize)]
pub struct TypeBText {
    pub q: Option<String>,
    pub id: Option<String>,
    #[serde(rename = "type")]
    pub text_type: Option<String>,
    #[serde(rename = "x-y")]
    pub x_y: Option<String>,
}

#[derive(Serialize, Deserialize)]
pub struct TypeBType {
    #[serde(rename = "x-y")]
    pub x_y: String,
    pub q: String,
}

#[derive(Serialize, Deserialize)]
pub struct TypeType {
    #[serde(rename = "x-y")]
    pub x_y: Option<String>,
    pub q: Option<String>,
    #[serde(rename = "type")]
    pub type_type: Option<TypeTypeType>,
    #[serde(rename = "Item")]
    pub item: TypeTypeItem,
    pub text: Option<TypeTypeText>,
}

#[derive(Serialize, Deserialize)]
pub struct TypeTypeType {
    #[serde(rename = "x-y")]
    pub x_y: String,
    pub q: String,
}

#[derive(Serialize, Deserialize)]
pub struct TypeTypeItem {
    pub p: String,
    pub q: Option<String>,
    #[serde(rename = "r")]
    pub n_r: Option<String>,
    #[serde(rename = "$text")]
    pub text: Option<String>,
}

#[derive(Serialize, Deserialize)]
pub struct TypeTypeText {
    pub id: String,
    #[serde(rename = "r")]
    pub n_r: String,
    pub p: String,
    #[serde(rename = "$text")]
    pub text: Option<String>,
}

pub fn de(doc: &str) -> Result<(), String> { serde_xml_rs::from_str::<Type>(doc).map(|_| ()).map_err(|e| e.to_string()) }
}
// variant b: every struct additionally denies unknown fields
pub mod b {
use serde::{Deserialize, Serialize};

#[derive(Serialize, Deserialize)]
#[serde(deny_unknown_fields)]
pub struct Type {
    pub id: String,
    #[serde(rename = "r")]
    pub n_r: Option<String>,
    #[serde(rename = "x-y")]
    pub x_y: String,
    #[serde(rename = "type")]
    pub type_type_attr: Option<String>,
    pub p: Option<String>,
    #[serde(rename = "Item")]
    pub item: Option<Vec<TypeItem>>,
    pub text: Option<TypeText>,
    pub b: Option<TypeB>,
    #[serde(rename = "type")]
    pub type_type: Option<Vec<TypeType>>,
}

#[derive(Serialize, Deserialize)]
#[serde(deny_unknown_fields)]
pub struct TypeItem {
    #[serde(rename = "r")]
    pub n_r: Option<String>,
    pub q: Option<String>,
    pub p: Option<String>,
    pub id: Option<String>,
    #[serde(rename = "type")]
    pub item_type: TypeItemType,
    #[serde(rename = "Item")]
    pub item: Option<Vec<TypeItemItem>>,
    pub b: Option<ItemB>,
}

#[derive(Serialize, Deserialize)]
#[serde(deny_unknown_fields)]
pub struct TypeItemType {
    #[serde(rename = "r")]
    pub n_r: Option<String>,
    #[serde(rename = "type")]
    pub type_type: Option<String>,
    #[serde(rename = "$text")]
    pub text: Option<String>,
}

#[derive(Serialize, Deserialize)]
#[serde(deny_unknown_fields)]
pub struct TypeItemItem {
    #[serde(rename = "r")]
    pub n_r: Option<String>,
    #[serde(rename = "type")]
    pub item_type: Option<String>,
    #[serde(rename = "x-y")]
    pub x_y: Option<String>,
    pub id: Option<String>,
    #[serde(rename = "$text")]
    pub text: Option<String>,
}

#[derive(Serialize, Deserialize)]
#[serde(deny_unknown_fields)]
pub struct ItemB {
    pub q: String,
    #[serde(rename = "x-y")]
    pub x_y: String,
    #[serde(rename = "r")]
    pub n_r: String,
    #[serde(rename = "$text")]
    pub text: Option<String>,
}

#[derive(Serialize, Deserialize)]
#[serde(deny_unknown_fields)]
pub struct TypeText {
    pub q: String,
    #[serde(rename = "type")]
    pub text_type: String,
    #[serde(rename = "x-y")]
    pub x_y: String,
    #[serde(rename = "$text")]
    pub text: Option<String>,
}

#[derive(Serialize, Deserialize)]
#[serde(deny_unknown_fields)]
pub struct TypeB {
    #[serde(rename = "r")]
    pub n_r: String,
    #[serde(rename = "x-y")]
    pub x_y: String,
    pub text: Vec<TypeBText>,
    #[serde(rename = "type")]
    pub b_type: TypeBType,
}

#[derive(Serialize, Deserialize)]
#[serde(deny_unknown_fields)]
pub struct TypeBText {
    pub q: Option<String>,
    pub id: Option<String>,
    #[serde(rename = "type")]
    pub text_type: Option<String>,
    #[serde(rename = "x-y")]
    pub x_y: Option<String>,
}

#[derive(Serialize, Deserialize)]
#[serde(deny_unknown_fields)]
pub struct TypeBType {
    #[serde(rename = "x-y")]
    pub x_y: String,
    pub q: String,
}

#[derive(Serialize, Deserialize)]
#[serde(deny_unknown_fields)]
pub struct TypeType {
    #[serde(rename = "x-y")]
    pub x_y: Option<String>,
    pub q: Option<String>,
    #[serde(rename = "type")]
    pub type_type: Option<TypeTypeType>,
    #[serde(rename = "Item")]
    pub item: TypeTypeItem,
    pub text: Option<TypeTypeText>,
}

#[derive(Serialize, Deserialize)]
#[serde(deny_unknown_fields)]
pub struct TypeTypeType {
    #[serde(rename = "x-y")]
    pub x_y: String,
    pub q: String,
}

#[derive(Serialize, Deserialize)]
#[serde(deny_unknown_fields)]
pub struct TypeTypeItem {
    pub p: String,
    pub q: Option<String>,
    #[serde(rename = "r")]
    pub n_r: Option<String>,
    #[serde(rename = "$text")]
    pub text: Option<String>,
}

#[derive(Serialize, Deserialize)]
#[serde(deny_unknown_fields)]
pub struct TypeTypeText {
    pub id: String,
    #[serde(rename = "r")]
    pub n_r: String,
    pub p: String,
    #[serde(rename = "$text")]
    pub text: Option<String>,
}

pub fn de(doc: &str) -> Result<(), String> { serde_xml_rs::from_str::<Type>(doc).map(|_| ()).map_err(|e| e.to_string()) }
}
// variant c: rendered with Debug in the derive string, to inspect the value
pub mod c {
use serde::{Deserialize, Serialize};

#[derive(Serialize, Deserialize, Debug)]
pub struct Type {
    pub id: String,
    #[serde(rename = "r")]
    pub n_r: Option<String>,
    #[serde(rename = "x-y")]
    pub x_y: String,
    #[serde(rename = "type")]
    pub type_type_attr: Option<String>,
    pub p: Option<String>,
    #[serde(rename = "Item")]
    pub item: Option<Vec<TypeItem>>,
    pub text: Option<TypeText>,
    pub b: Option<TypeB>,
    #[serde(rename = "type")]
    pub type_type: Option<Vec<TypeType>>,
}

#[derive(Serialize, Deserialize, Debug)]
pub struct TypeItem {
    #[serde(rename = "r")]
    pub n_r: Option<String>,
    pub q: Option<String>,
    pub p: Option<String>,
    pub id: Option<String>,
    #[serde(rename = "type")]
    pub item_type: TypeItemType,
    #[serde(rename = "Item")]
    pub item: Option<Vec<TypeItemItem>>,
    pub b: Option<ItemB>,
}

#[derive(Serialize, Deserialize, Debug)]
pub struct TypeItemType {
    #[serde(rename = "r")]
    pub n_r: Option<String>,
    #[serde(rename = "type")]
    pub type_type: Option<String>,
    #[serde(rename = "$text")]
    pub text: Option<String>,
}

#[derive(Serialize, Deserialize, Debug)]
pub struct TypeItemItem {
    #[serde(rename = "r")]
    pub n_r: Option<String>,
    #[serde(rename = "type")]
    pub item_type: Option<String>,
    #[serde(rename = "x-y")]
    pub x_y: Option<String>,
    pub id: Option<String>,
    #[serde(rename = "$text")]
    pub text: Option<String>,
}

#[derive(Serialize, Deserialize, Debug)]
pub struct ItemB {
    pub q: String,
    #[serde(rename = "x-y")]
    pub x_y: String,
    #[serde(rename = "r")]
    pub n_r: String,
    #[serde(rename = "$text")]
    pub text: Option<String>,
}

#[derive(Serialize, Deserialize, Debug)]
pub struct TypeText {
    pub q: String,
    #[serde(rename = "type")]
    pub text_type: String,
    #[serde(rename = "x-y")]
    pub x_y: String,
    #[serde(rename = "$text")]
    pub text: Option<String>,
}

#[derive(Serialize, Deserialize, Debug)]
pub struct TypeB {
    #[serde(rename = "r")]
    pub n_r: String,
    #[serde(rename = "x-y")]
    pub x_y: String,
    pub text: Vec<TypeBText>,
    #[serde(rename = "type")]
    pub b_type: TypeBType,
}

#[derive(Serialize, Deserialize, Debug)]
pub struct TypeBText {
    pub q: Option<String>,
    pub id: Option<String>,
    #[serde(rename = "type")]
    pub text_type: Option<String>,
    #[serde(rename = "x-y")]
    pub x_y: Option<String>,
}

#[derive(Serialize, Deserialize, Debug)]
pub struct TypeBType {
    #[serde(rename = "x-y")]
    pub x_y: String,
    pub q: String,
}

#[derive(Serialize, Deserialize, Debug)]
pub struct TypeType {
    #[serde(rename = "x-y")]
    pub x_y: Option<String>,
    pub q: Option<String>,
    #[serde(rename = "type")]
    pub type_type: Option<TypeTypeType>,
    #[serde(rename = "Item")]
    pub item: TypeTypeItem,
    pub text: Option<TypeTypeText>,
}

#[derive(Serialize, Deserialize, Debug)]
pub struct TypeTypeType {
    #[serde(rename = "x-y")]
    pub x_y: String,
    pub q: String,
}

#[derive(Serialize, Deserialize, Debug)]
pub struct TypeTypeItem {
    pub p: String,
    pub q: Option<String>,
    #[serde(rename = "r")]
    pub n_r: Option<String>,
    #[serde(rename = "$text")]
    pub text: Option<String>,
}

#[derive(Serialize, Deserialize, Debug)]
pub struct TypeTypeText {
    pub id: String,
    #[serde(rename = "r")]
    pub n_r: String,
    pub p: String,
    #[serde(rename = "$text")]
    pub text: Option<String>,
}

pub fn de(doc: &str) -> Result<String, String> { serde_xml_rs::from_str::<Type>(doc).map(|v| format!("{:?}", v)).map_err(|e| e.to_string()) }
}
pub const DOCS: &[&str] = &[
    "<!-- c --><type id=\"v001\" n:r=\"v002\" x-y=\"v003\"><Item><type/><?target?><Item n:r=\"v004\">t005</Item><Item type=\"v006\" x-y=\"v007\" id=\"v008\"></Item></Item><Item n:r=\"v009\"><type n:r=\"v010\" type=\"v011\"/><b q=\"v012\" x-y=\"v013\" n:r=\"v014\">t015<![CDATA[c016]]></b></Item></type>",
    "<?target?><type type=\"v001\" id=\"v002\" x-y=\"v003\"><text q=\"v004\" type=\"v005\" x-y=\"v006\"><![CDATA[c007]]>t008</text><b n:r=\"v009\" x-y=\"v010\"><!-- c --><text q=\"v011\"/><text id=\"v012\" type=\"v013\"></text><text id=\"v014\" x-y=\"v015\"/><type x-y=\"v016\" q=\"v017\"></type></b></type>",
    "<!DOCTYPE type><type id=\"v001\" x-y=\"v002\" p=\"v003\"><type x-y=\"v004\" q=\"v005\"><?target?><type x-y=\"v006\" q=\"v007\"></type><Item p=\"v008\"/><text id=\"v009\" n:r=\"v010\" p=\"v011\">t012 &amp; more</text></type><?pi some data?><type><Item q=\"v013\" p=\"v014\" n:r=\"v015\">t016</Item></type><Item q=\"v017\" p=\"v018\" id=\"v019\"><Item n:r=\"v020\"></Item><type n:r=\"v021\" type=\"v022\"><![CDATA[c023]]></type></Item></type>",
];
pub const VALUES: &[&[(&str, &str)]] = &[
    &[("attr", "v001"), ("attr", "v002"), ("attr", "v003"), ("attr", "v004"), ("text", "t005"), ("attr", "v006"), ("attr", "v007"), ("attr", "v008"), ("attr", "v009"), ("attr", "v010"), ("attr", "v011"), ("attr", "v012"), ("attr", "v013"), ("attr", "v014"), ("text", "t015"), ("text", "c016"), ],
    &[("attr", "v001"), ("attr", "v002"), ("attr", "v003"), ("attr", "v004"), ("attr", "v005"), ("attr", "v006"), ("text", "c007"), ("text", "t008"), ("attr", "v009"), ("attr", "v010"), ("attr", "v011"), ("attr", "v012"), ("attr", "v013"), ("attr", "v014"), ("attr", "v015"), ("attr", "v016"), ("attr", "v017"), ],
    &[("attr", "v001"), ("attr", "v002"), ("attr", "v003"), ("attr", "v004"), ("attr", "v005"), ("attr", "v006"), ("attr", "v007"), ("attr", "v008"), ("attr", "v009"), ("attr", "v010"), ("attr", "v011"), ("text", "t012 & more"), ("attr", "v013"), ("attr", "v014"), ("attr", "v015"), ("text", "t016"), ("attr", "v017"), ("attr", "v018"), ("attr", "v019"), ("attr", "v020"), ("attr", "v021"), ("attr", "v022"), ("text", "c023"), ],
];
pub fn run() { crate::report(40, DOCS, VALUES, a::de, b::de, c::de); }
