#![allow(dead_code, non_snake_case, non_camel_case_types, unused_imports)]
// variant a: the rendered source unchanged
pub mod a {
use serde::{Deserialize, Serialize};

#[derive(Serialize, Deserialize)]
pub struct Item {
    #[serde(rename = "x-y")]
    pub x_y: String,
    pub q: Option<String>,
    pub p: Option<String>,
    #[serde(rename = "type")]
    pub item_type: Option<String>,
    #[serde(rename = "$text")]
    pub text: Option<String>,
    #[serde(rename = "Price")]
    pub price: Option<Price>,
    #[serde(rename = "Foo")]
    pub foo: Option<Vec<Foo>>,
    pub x1: Option<ItemX1>,
}

#[derive(Serialize, Deserialize)]
pub struct Price {
    pub p: String,
    pub id: String,
    #[serde(rename = "$text")]
    pub text: Option<String>,
}

#[derive(Serialize, Deserialize)]
pub struct Foo {
    #[serde(rename = "r")]
    pub n_r: String,
    pub q: Option<String>,
    #[serde(rename = "$text")]
    pub text: Option<String>,
    #[serde(rename = "Item")]
    pub item: Option<Vec<ItemFooItem>>,
    pub x1: Option<String>,
}

#[derive(Serialize, Deserialize)]
pub struct ItemFooItem {
    #[serde(rename = "r")]
    pub n_r: Option<String>,
    #[serde(rename = "x-y")]
    pub x_y: Option<String>,
    pub id: Option<String>,
    #[serde(rename = "type")]
    pub item_type: Option<String>,
    #[serde(rename = "$text")]
    pub text: Option<String>,
}

#[derive(Serialize, Deserialize)]
pub struct ItemX1 {
    #[serde(rename = "x-y")]
    pub x_y: String,
    #[serde(rename = "r")]
    pub n_r: String,
    #[serde(rename = "type")]
    pub x1_type: String,
}

pub fn de(doc: &str) -> Result<(), String> { serde_xml_rs::from_str::<Item>(doc).map(|_| ()).map_err(|e| e.to_string()) }
}
// variant b: every struct additionally denies unknown fields
pub mod b {
use serde::{Deserialize, Serialize};

#[derive(Serialize, Deserialize)]
#[serde(deny_unknown_fields)]
pub struct Item {
    #[serde(rename = "x-y")]
    pub x_y: String,
    pub q: Option<String>,
    pub p: Option<String>,
    #[serde(rename = "type")]
    pub item_type: Option<String>,
    #[serde(rename = "$text")]
    pub text: Option<String>,
    #[serde(rename = "Price")]
    pub price: Option<Price>,
    #[serde(rename = "Foo")]
    pub foo: Option<Vec<Foo>>,
    pub x1: Option<ItemX1>,
}

#[derive(Serialize, Deserialize)]
#[serde(deny_unknown_fields)]
pub struct Price {
    pub p: String,
    pub id: String,
    #[serde(rename = "$text")]
    pub text: Option<String>,
}

#[derive(Serialize, Deserialize)]
#[serde(deny_unknown_fields)]
pub struct Foo {
    #[serde(rename = "r")]
    pub n_r: String,
    pub q: Option<String>,
    #[serde(rename = "$text")]
    pub text: Option<String>,
    #[serde(rename = "Item")]
    pub item: Option<Vec<ItemFooItem>>,
    pub x1: Option<String>,
}

#[derive(Serialize, Deserialize)]
#[serde(deny_unknown_fields)]
pub struct ItemFooItem {
    #[serde(rename = "r")]
    pub n_r: Option<String>,
    #[serde(rename = "x-y")]
    pub x_y: Option<String>,
    pub id: Option<String>,
    #[serde(rename = "type")]
    pub item_type: Option<String>,
    #[serde(rename = "$text")]
    pub text: Option<String>,
}

#[derive(Serialize, Deserialize)]
#[serde(deny_unknown_fields)]
pub struct ItemX1 {
    #[serde(rename = "x-y")]
    pub x_y: String,
    #[serde(rename = "r")]
    pub n_r: String,
    #[serde(rename = "type")]
    pub x1_type: String,
}

pub fn de(doc: &str) -> Result<(), String> { serde_xml_rs::from_str::<Item>(doc).map(|_| ()).map_err(|e| e.to_string()) }
}
// variant c: rendered with Debug in the derive string, to inspect the value
pub mod c {
use serde::{Deserialize, Serialize};

#[derive(Serialize, Deserialize, Debug)]
pub struct Item {
    #[serde(rename = "x-y")]
    pub x_y: String,
    pub q: Option<String>,
    pub p: Option<String>,
    #[serde(rename = "type")]
    pub item_type: Option<String>,
    #[serde(rename = "$text")]
    pub text: Option<String>,
    #[serde(rename = "Price")]
    pub price: Option<Price>,
    #[serde(rename = "Foo")]
    pub foo: Option<Vec<Foo>>,
    pub x1: Option<ItemX1>,
}

#[derive(Serialize, Deserialize, Debug)]
pub struct Price {
    pub p: String,
    pub id: String,
    #[serde(rename = "$text")]
    pub text: Option<String>,
}

#[derive(Serialize, Deserialize, Debug)]
pub struct Foo {
    #[serde(rename = "r")]
    pub n_r: String,
    pub q: Option<String>,
    #[serde(rename = "$text")]
    pub text: Option<String>,
    #[serde(rename = "Item")]
    pub item: Option<Vec<ItemFooItem>>,
    pub x1: Option<String>,
}

#[derive(Serialize, Deserialize, Debug)]
pub struct ItemFooItem {
    #[serde(rename = "r")]
    pub n_r: Option<String>,
    #[serde(rename = "x-y")]
    pub x_y: Option<String>,
    pub id: Option<String>,
    #[serde(rename = "type")]
    pub item_type: Option<String>,
    #[serde(rename = "$text")]
    pub text: Option<String>,
}

#[derive(Serialize, Deserialize, Debug)]
pub struct ItemX1 {
    #[serde(rename = "x-y")]
    pub x_y: String,
    #[serde(rename = "r")]
    pub n_r: String,
    #[serde(rename = "type")]
    pub x1_type: String,
}

pub fn de(doc: &str) -> Result<String, String> { serde_xml_rs::from_str::<Item>(doc).map(|v| format!("{:?}", v)).map_err(|e| e.to_string()) }
}
pub const DOCS: &[&str] = &[
    "<Item x-y=\"v001\">\n    <Price p=\"v002\" id=\"v003\">t004</Price>\n    <Foo n:r=\"v005\">\n      <Item n:r=\"v006\" x-y=\"v007\">t008 &amp; more</Item>\n      <Item id=\"v009\" type=\"v010\"><![CDATA[c011]]></Item>\n    </Foo>\n    <Foo q=\"v012\" n:r=\"v013\">\n      <x1>t014</x1>\n    </Foo>\n  </Item>\n",
    "<?xml version=\"1.0\" encoding=\"UTF-8\"?>\n<!-- c --><Item x-y=\"v001\">\n    <x1 x-y=\"v002\" n:r=\"v003\" type=\"v004\"></x1>\n  </Item>\n",
    "<?xml version=\"1.0\" encoding=\"UTF-8\"?>\n<Item q=\"v001\" p=\"v002\" x-y=\"v003\" type=\"v004\"><![CDATA[c005]]>t006 &amp; more</Item>\n",
];
pub const VALUES: &[&[(&str, &str)]] = &[
    &[("attr", "v001"), ("attr", "v002"), ("attr", "v003"), ("text", "t004"), ("attr", "v005"), ("attr", "v006"), ("attr", "v007"), ("text", "t008 & more"), ("attr", "v009"), ("attr", "v010"), ("text", "c011"), ("attr", "v012"), ("attr", "v013"), ("text", "t014"), ],
    &[("attr", "v001"), ("attr", "v002"), ("attr", "v003"), ("attr", "v004"), ],
    &[("attr", "v001"), ("attr", "v002"), ("attr", "v003"), ("attr", "v004"), ("text", "c005"), ("text", "t006 & more"), ],
];
pub fn run() { crate::report(48, DOCS, VALUES, a::de, b::de, c::de); }
