#![allow(dead_code, non_snake_case, non_camel_case_types, unused_imports)]
// variant a: the rendered source unchanged
pub mod a {
use serde::{Deserialize, Serialize};

#[derive(Serialize, Deserialize)]
pub struct B {
    #[serde(rename = "r")]
    pub n_r: String,
    pub p: String,
}

pub fn de(doc: &str) -> Result<(), String> { serde_xml_rs::from_str::<B>(doc).map(|_| ()).map_err(|e| e.to_string()) }
}
// variant b: every struct additionally denies unknown fields
pub mod b {
use serde::{Deserialize, Serialize};

#[derive(Serialize, Deserialize)]
#[serde(deny_unknown_fields)]
pub struct B {
    #[serde(rename = "r")]
    pub n_r: String,
    pub p: String,
}

pub fn de(doc: &str) -> Result<(), String> { serde_xml_rs::from_str::<B>(doc).map(|_| ()).map_err(|e| e.to_string()) }
}
// variant c: rendered with Debug in the derive string, to inspect the value
pub mod c {
use serde::{Deserialize, Serialize};

#[derive(Serialize, Deserialize, Debug)]
pub struct B {
    #[serde(rename = "r")]
    pub n_r: String,
    pub p: String,
}

pub fn de(doc: &str) -> Result<String, String> { serde_xml_rs::from_str::<B>(doc).map(|v| format!("{:?}", v)).map_err(|e| e.to_string()) }
}
pub const DOCS: &[&str] = &[
    "<b n:r=\"v001\" p=\"v002\"></b>\n",
];
pub const VALUES: &[&[(&str, &str)]] = &[
    &[("attr", "v001"), ("attr", "v002"), ],
];
pub fn run() { crate::report(45, DOCS, VALUES, a::de, b::de, c::de); }
