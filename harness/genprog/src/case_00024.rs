#![allow(dead_code, non_snake_case, non_camel_case_types, unused_imports)]
// variant a: the rendered source unchanged
pub mod a {
use serde::{Deserialize, Serialize};

#[derive(Serialize, Deserialize)]
pub struct R {
    pub q: String,
    pub p: Option<String>,
    pub a: Option<Vec<A>>,
}

#[derive(Serialize, Deserialize)]
pub struct A {
    pub q: Option<String>,
    pub p: String,
}

pub fn de(doc: &str) -> Result<(), String> { serde_xml_rs::from_str::<R>(doc).map(|_| ()).map_err(|e| e.to_string()) }
}
// variant b: every struct additionally denies unknown fields
pub mod b {
use serde::{Deserialize, Serialize};

#[derive(Serialize, Deserialize)]
#[serde(deny_unknown_fields)]
pub struct R {
    pub q: String,
    pub p: Option<String>,
    pub a: Option<Vec<A>>,
}

#[derive(Serialize, Deserialize)]
#[serde(deny_unknown_fields)]
pub struct A {
    pub q: Option<String>,
    pub p: String,
}

pub fn de(doc: &str) -> Result<(), String> { serde_xml_rs::from_str::<R>(doc).map(|_| ()).map_err(|e| e.to_string()) }
}
// variant c: rendered with Debug in the derive string, to inspect the value
pub mod c {
use serde::{Deserialize, Serialize};

#[derive(Serialize, Deserialize, Debug)]
pub struct R {
    pub q: String,
    pub p: Option<String>,
    pub a: Option<Vec<A>>,
}

#[derive(Serialize, Deserialize, Debug)]
pub struct A {
    pub q: Option<String>,
    pub p: String,
}

pub fn de(doc: &str) -> Result<String, String> { serde_xml_rs::from_str::<R>(doc).map(|v| format!("{:?}", v)).map_err(|e| e.to_string()) }
}
pub const DOCS: &[&str] = &[
    "<r q=\"v001\"><a q=\"v002\" p=\"v003\"></a><a p=\"v004\"/></r>",
    "<r p=\"v001\" q=\"v002\"></r>",
];
pub const VALUES: &[&[(&str, &str)]] = &[
    &[("attr", "v001"), ("attr", "v002"), ("attr", "v003"), ("attr", "v004"), ],
    &[("attr", "v001"), ("attr", "v002"), ],
];
pub fn run() { crate::report(24, DOCS, VALUES, a::de, b::de, c::de); }
