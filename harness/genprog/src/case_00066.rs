#![allow(dead_code, non_snake_case, non_camel_case_types, unused_imports)]
// variant a: the rendered source unchanged
pub mod a {
use serde::{Deserialize, Serialize};

#[derive(Serialize, Deserialize)]
pub struct Foo {
    #[serde(rename = "type")]
    pub foo_type: String,
    pub id: Option<String>,
    pub q: Option<String>,
    pub p: Option<String>,
    #[serde(rename = "x-y")]
    pub x_y: Option<String>,
    #[serde(rename = "$text")]
    pub text: Option<String>,
    #[serde(rename = "Foo")]
    pub foo: Option<FooFoo>,
}

#[derive(Serialize, Deserialize)]
pub struct FooFoo {
    #[serde(rename = "$text")]
    pub text: Option<String>,
    #[serde(rename = "Price")]
    pub price: Price,
}

#[derive(Serialize, Deserialize)]
pub struct Price {
    #[serde(rename = "$text")]
    pub text: Option<String>,
    #[serde(rename = "Foo")]
    pub foo: FooFooPriceFoo,
}

#[derive(Serialize, Deserialize)]
pub struct FooFooPriceFoo {
    pub id: String,
    #[serde(rename = "r")]
    pub n_r: String,
    #[serde(rename = "x-y")]
    pub x_y: String,
    #[serde(rename = "$text")]
    pub text: Option<String>,
}

pub fn de(doc: &str) -> Result<(), String> { serde_xml_rs::from_str::<Foo>(doc).map(|_| ()).map_err(|e| e.to_string()) }
}
// variant b: every struct additionally denies unknown fields
pub mod b {
use serde::{Deserialize, Serialize};

#[derive(Serialize, Deserialize)]
#[serde(deny_unknown_fields)]
pub struct Foo {
    #[serde(rename = "type")]
    pub foo_type: String,
    pub id: Option<String>,
    pub q: Option<String>,
    pub p: Option<String>,
    #[serde(rename = "x-y")]
    pub x_y: Option<String>,
    #[serde(rename = "$text")]
    pub text: Option<String>,
    #[serde(rename = "Foo")]
    pub foo: Option<FooFoo>,
}

#[derive(Serialize, Deserialize)]
#[serde(deny_unknown_fields)]
pub struct FooFoo {
    #[serde(rename = "$text")]
    pub text: Option<String>,
    #[serde(rename = "Price")]
    pub price: Price,
}

#[derive(Serialize, Deserialize)]
#[serde(deny_unknown_fields)]
pub struct Price {
    #[serde(rename = "$text")]
    pub text: Option<String>,
    #[serde(rename = "Foo")]
    pub foo: FooFooPriceFoo,
}

#[derive(Serialize, Deserialize)]
#[serde(deny_unknown_fields)]
pub struct FooFooPriceFoo {
    pub id: String,
    #[serde(rename = "r")]
    pub n_r: String,
    #[serde(rename = "x-y")]
    pub x_y: String,
    #[serde(rename = "$text")]
    pub text: Option<String>,
}

pub fn de(doc: &str) -> Result<(), String> { serde_xml_rs::from_str::<Foo>(doc).map(|_| ()).map_err(|e| e.to_string()) }
}
// variant c: rendered with Debug in the derive string, to inspect the value
pub mod c {
use serde::{Deserialize, Serialize};

#[derive(Serialize, Deserialize, Debug)]
pub struct Foo {
    #[serde(rename = "type")]
    pub foo_type: String,
    pub id: Option<String>,
    pub q: Option<String>,
    pub p: Option<String>,
    #[serde(rename = "x-y")]
    pub x_y: Option<String>,
    #[serde(rename = "$text")]
    pub text: Option<String>,
    #[serde(rename = "Foo")]
    pub foo: Option<FooFoo>,
}

#[derive(Serialize, Deserialize, Debug)]
pub struct FooFoo {
    #[serde(rename = "$text")]
    pub text: Option<String>,
    #[serde(rename = "Price")]
    pub price: Price,
}

#[derive(Serialize, Deserialize, Debug)]
pub struct Price {
    #[serde(rename = "$text")]
    pub text: Option<String>,
    #[serde(rename = "Foo")]
    pub foo: FooFooPriceFoo,
}

#[derive(Serialize, Deserialize, Debug)]
pub struct FooFooPriceFoo {
    pub id: String,
    #[serde(rename = "r")]
    pub n_r: String,
    #[serde(rename = "x-y")]
    pub x_y: String,
    #[serde(rename = "$text")]
    pub text: Option<String>,
}

pub fn de(doc: &str) -> Result<String, String> { serde_xml_rs::from_str::<Foo>(doc).map(|v| format!("{:?}", v)).map_err(|e| e.to_string()) }
}
pub const DOCS: &[&str] = &[
    "<?xml version=\"1.0\" encoding=\"UTF-8\"?>\n<Foo type=\"v001\"/><?target?>\n",
    "<Foo id=\"v001\" type=\"v002\" q=\"v003\" p=\"v004\" x-y=\"v005\">\n    <Foo>\n      <Price>\n        <Foo id=\"v006\" n:r=\"v007\" x-y=\"v008\">t009t010</Foo>\n      </Price>\n    </Foo>\n  </Foo>\n",
];
pub const VALUES: &[&[(&str, &str)]] = &[
    &[("attr", "v001"), ],
    &[("attr", "v001"), ("attr", "v002"), ("attr", "v003"), ("attr", "v004"), ("attr", "v005"), ("attr", "v006"), ("attr", "v007"), ("attr", "v008"), ("text", "t009t010"), ],
];
pub fn run() { crate::report(66, DOCS, VALUES, a::de, b::de, c::de); }
