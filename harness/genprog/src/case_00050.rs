#![allow(dead_code, non_snake_case, non_camel_case_types, unused_imports)]
// variant a: the rendered source unchanged
pub mod a {
use serde::{Deserialize, Serialize};

#[derive(Serialize, Deserialize)]
pub struct Text {
    pub id: Option<String>,
    #[serde(rename = "x-y")]
    pub x_y: Option<String>,
    #[serde(rename = "r")]
    pub n_r: Option<String>,
    pub p: Option<String>,
    pub q: Option<String>,
    pub text: Option<TextText>,
}

#[derive(Serialize, Deserialize)]
pub struct TextText {
    pub p: String,
    pub id: String,
    #[serde(rename = "Total")]
    pub total: Vec<TextTotal>,
}

#[derive(Serialize, Deserialize)]
pub struct TextTotal {
    #[serde(rename = "type")]
    pub total_type: Option<String>,
    #[serde(rename = "r")]
    pub n_r: Option<String>,
    pub q: Option<String>,
    #[serde(rename = "x-y")]
    pub x_y: Option<String>,
    pub text: Vec<TextTextTotalText>,
    #[serde(rename = "Total")]
    pub total: Option<TotalTotal>,
}

#[derive(Serialize, Deserialize)]
pub struct TextTextTotalText {
    #[serde(rename = "x-y")]
    pub x_y: Option<String>,
    #[serde(rename = "type")]
    pub text_type: Option<String>,
    pub id: Option<String>,
    pub p: Option<String>,
    #[serde(rename = "r")]
    pub n_r: Option<String>,
    #[serde(rename = "$text")]
    pub text: Option<String>,
}

#[derive(Serialize, Deserialize)]
pub struct TotalTotal {
    pub id: String,
}

pub fn de(doc: &str) -> Result<(), String> { serde_xml_rs::from_str::<Text>(doc).map(|_| ()).map_err(|e| e.to_string()) }
}
// variant b: every struct additionally denies unknown fields
pub mod b {
use serde::{Deserialize, Serialize};

#[derive(Serialize, Deserialize)]
#[serde(deny_unknown_fields)]
pub struct Text {
    pub id: Option<String>,
    #[serde(rename = "x-y")]
    pub x_y: Option<String>,
    #[serde(rename = "r")]
    pub n_r: Option<String>,
    pub p: Option<String>,
    pub q: Option<String>,
    pub text: Option<TextText>,
}

#[derive(Serialize, Deserialize)]
#[serde(deny_unknown_fields)]
pub struct TextText {
    pub p: String,
    pub id: String,
    #[serde(rename = "Total")]
    pub total: Vec<TextTotal>,
}

#[derive(Serialize, Deserialize)]
#[serde(deny_unknown_fields)]
pub struct TextTotal {
    #[serde(rename = "type")]
    pub total_type: Option<String>,
    #[serde(rename = "r")]
    pub n_r: Option<String>,
    pub q: Option<String>,
    #[serde(rename = "x-y")]
    pub x_y: Option<String>,
    pub text: Vec<TextTextTotalText>,
    #[serde(rename = "Total")]
    pub total: Option<TotalTotal>,
}

#[derive(Serialize, Deserialize)]
#[serde(deny_unknown_fields)]
pub struct TextTextTotalText {
    #[serde(rename = "x-y")]
    pub x_y: Option<String>,
    #[serde(rename = "type")]
    pub text_type: Option<String>,
    pub id: Option<String>,
    pub p: Option<String>,
    #[serde(rename = "r")]
    pub n_r: Option<String>,
    #[serde(rename = "$text")]
    pub text: Option<String>,
}

#[derive(Serialize, Deserialize)]
#[serde(deny_unknown_fields)]
pub struct TotalTotal {
    pub id: String,
}

pub fn de(doc: &str) -> Result<(), String> { serde_xml_rs::from_str::<Text>(doc).map(|_| ()).map_err(|e| e.to_string()) }
}
// variant c: rendered with Debug in the derive string, to inspect the value
pub mod c {
use serde::{Deserialize, Serialize};

#[derive(Serialize, Deserialize, Debug)]
pub struct Text {
    pub id: Option<String>,
    #[serde(rename = "x-y")]
    pub x_y: Option<String>,
    #[serde(rename = "r")]
    pub n_r: Option<String>,
    pub p: Option<String>,
    pub q: Option<String>,
    pub text: Option<TextText>,
}

#[derive(Serialize, Deserialize, Debug)]
pub struct TextText {
    pub p: String,
    pub id: String,
    #[serde(rename = "Total")]
    pub total: Vec<TextTotal>,
}

#[derive(Serialize, Deserialize, Debug)]
pub struct TextTotal {
    #[serde(rename = "type")]
    pub total_type: Option<String>,
    #[serde(rename = "r")]
    pub n_r: Option<String>,
    pub q: Option<String>,
    #[serde(rename = "x-y")]
    pub x_y: Option<String>,
    pub text: Vec<TextTextTotalText>,
    #[serde(rename = "Total")]
    pub total: Option<TotalTotal>,
}

#[derive(Serialize, Deserialize, Debug)]
pub struct TextTextTotalText {
    #[serde(rename = "x-y")]
    pub x_y: Option<String>,
    #[serde(rename = "type")]
    pub text_type: Option<String>,
    pub id: Option<String>,
    pub p: Option<String>,
    #[serde(rename = "r")]
    pub n_r: Option<String>,
    #[serde(rename = "$text")]
    pub text: Option<String>,
}

#[derive(Serialize, Deserialize, Debug)]
pub struct TotalTotal {
    pub id: String,
}

pub fn de(doc: &str) -> Result<String, String> { serde_xml_rs::from_str::<Text>(doc).map(|v| format!("{:?}", v)).map_err(|e| e.to_string()) }
}
pub const DOCS: &[&str] = &[
    "<!DOCTYPE text><text id=\"v001\" x-y=\"v002\"><?pi some data?><text p=\"v003\" id=\"v004\"><Total type=\"v005\" n:r=\"v006\"><text x-y=\"v007\" type=\"v008\">t009t010</text><Total id=\"v011\"/></Total><Total q=\"v012\"><text type=\"v013\" id=\"v014\">t015t016</text><text p=\"v017\"/><text n:r=\"v018\" type=\"v019\" id=\"v020\"/></Total><Total x-y=\"v021\" n:r=\"v022\"><text x-y=\"v023\"/></Total></text></text>",
    "<text x-y=\"v001\" n:r=\"v002\" p=\"v003\" id=\"v004\"/>",
    "<!DOCTYPE text><text p=\"v001\" q=\"v002\"/>",
];
pub const VALUES: &[&[(&str, &str)]] = &[
    &[("attr", "v001"), ("attr", "v002"), ("attr", "v003"), ("attr", "v004"), ("attr", "v005"), ("attr", "v006"), ("attr", "v007"), ("attr", "v008"), ("text", "t009t010"), ("attr", "v011"), ("attr", "v012"), ("attr", "v013"), ("attr", "v014"), ("text", "t015t016"), ("attr", "v017"), ("attr", "v018"), ("attr", "v019"), ("attr", "v020"), ("attr", "v021"), ("attr", "v022"), ("attr", "v023"), ],
    &[("attr", "v001"), ("attr", "v002"), ("attr", "v003"), ("attr", "v004"), ],
    &[("attr", "v001"), ("attr", "v002"), ],
];
pub fn run() { crate::report(50, DOCS, VALUES, a::de, b::de, c::de); }
