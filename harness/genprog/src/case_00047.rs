#![allow(dead_code, non_snake_case, non_camel_case_types, unused_imports)]
// variant a: the rendered source unchanged
pub mod a {
use serde::{Deserialize, Serialize};

#[derive(Serialize, Deserialize)]
pub struct Name {
    #[serde(rename = "r")]
    pub n_r: String,
    pub b: B,
}

#[derive(Serialize, Deserialize)]
pub struct B {
    #[serde(rename = "r")]
    pub n_r: String,
    #[serde(rename = "type")]
    pub b_type: String,
}

pub fn de(doc: &str) -> Result<(), String> { serde_xml_rs::from_str::<Name>(doc).map(|_| ()).map_err(|e| e.to_string()) }
}
// variant b: every struct additionally denies unknown fields
pub mod b {
use serde::{Deserialize, Serialize};

#[derive(Serialize, Deserialize)]
#[serde(deny_unknown_fields)]
pub struct Name {
    #[serde(rename = "r")]
    pub n_r: String,
    pub b: B,
}

#[derive(Serialize, Deserialize)]
#[serde(deny_unknown_fields)]
pub struct B {
    #[serde(rename = "r")]
    pub n_r: String,
    #[serde(rename = "type")]
    pub b_type: String,
}

pub fn de(doc: &str) -> Result<(), String> { serde_xml_rs::from_str::<Name>(doc).map(|_| ()).map_err(|e| e.to_string()) }
}
// variant c: rendered with Debug in the derive string, to inspect the value
pub mod c {
use serde::{Deserialize, Serialize};

#[derive(Serialize, Deserialize, Debug)]
pub struct Name {
    #[serde(rename = "r")]
    pub n_r: String,
    pub b: B,
}

#[derive(Serialize, Deserialize, Debug)]
pub struct B {
    #[serde(rename = "r")]
    pub n_r: String,
    #[serde(rename = "type")]
    pub b_type: String,
}

pub fn de(doc: &str) -> Result<String, String> { serde_xml_rs::from_str::<Name>(doc).map(|v| format!("{:?}", v)).map_err(|e| e.to_string()) }
}
pub const DOCS: &[&str] = &[
    "<?xml version=\"1.0\" encoding=\"UTF-8\"?><name n:r=\"v001\"><b n:r=\"v002\" type=\"v003\"></b></name>",
];
pub const VALUES: &[&[(&str, &str)]] = &[
    &[("attr", "v001"), ("attr", "v002"), ("attr", "v003"), ],
];
pub fn run() { crate::report(47, DOCS, VALUES, a::de, b::de, c::de); }
