#![allow(dead_code, non_snake_case, non_camel_case_types, unused_imports)]
// variant a: the rendered source unchanged
pub mod a {
use serde::{Deserialize, Serialize};

#[derive(Serialize, Deserialize)]
pub struct Foo {
    #[serde(rename = "r")]
    pub n_r: Option<String>,
    pub id: Option<String>,
    #[serde(rename = "x-y")]
    pub x_y: Option<String>,
    #[serde(rename = "type")]
    pub foo_type: Option<String>,
    pub p: Option<String>,
    pub text: Option<Vec<Text>>,
    pub b: Option<B>,
    #[serde(rename = "Item")]
    pub item: Option<Item>,
}

#[derive(Serialize, Deserialize)]
pub struct Text {
    pub q: Option<String>,
    #[serde(rename = "type")]
    pub text_type: Option<String>,
    pub p: Option<String>,
    #[serde(rename = "r")]
    pub n_r: Option<String>,
}

#[derive(Serialize, Deserialize)]
pub struct B {
    pub q: String,
    pub p: String,
}

#[derive(Serialize, Deserialize)]
pub struct Item {
    pub q: String,
    #[serde(rename = "x-y")]
    pub x_y: String,
    #[serde(rename = "type")]
    pub item_type: String,
    pub id: String,
}

pub fn de(doc: &str) -> Result<(), String> { serde_xml_rs::from_str::<Foo>(doc).map(|_| ()).map_err(|e| e.to_string()) }
}
// variant b: every struct additionally denies unknown fields
pub mod b {
use serde::{Deserialize, Serialize};

#[derive(Serialize, Deserialize)]
#[serde(deny_unknown_fields)]
pub struct Foo {
    #[serde(rename = "r")]
    pub n_r: Option<String>,
    pub id: Option<String>,
    #[serde(rename = "x-y")]
    pub x_y: Option<String>,
    #[serde(rename = "type")]
    pub foo_type: Option<String>,
    pub p: Option<String>,
    pub text: Option<Vec<Text>>,
    pub b: Option<B>,
    #[serde(rename = "Item")]
    pub item: Option<Item>,
}

#[derive(Serialize, Deserialize)]
#[serde(deny_unknown_fields)]
pub struct Text {
    pub q: Option<String>,
    #[serde(rename = "type")]
    pub text_type: Option<String>,
    pub p: Option<String>,
    #[serde(rename = "r")]
    pub n_r: Option<String>,
}

#[derive(Serialize, Deserialize)]
#[serde(deny_unknown_fields)]
pub struct B {
    pub q: String,
    pub p: String,
}

#[derive(Serialize, Deserialize)]
#[serde(deny_unknown_fields)]
pub struct Item {
    pub q: String,
    #[serde(rename = "x-y")]
    pub x_y: String,
    #[serde(rename = "type")]
    pub item_type: String,
    pub id: String,
}

pub fn de(doc: &str) -> Result<(), String> { serde_xml_rs::from_str::<Foo>(doc).map(|_| ()).map_err(|e| e.to_string()) }
}
// variant c: rendered with Debug in the derive string, to inspect the value
pub mod c {
use serde::{Deserialize, Serialize};

#[derive(Serialize, Deserialize, Debug)]
pub struct Foo {
    #[serde(rename = "r")]
    pub n_r: Option<String>,
    pub id: Option<String>,
    #[serde(rename = "x-y")]
    pub x_y: Option<String>,
    #[serde(rename = "type")]
    pub foo_type: Option<String>,
    pub p: Option<String>,
    pub text: Option<Vec<Text>>,
    pub b: Option<B>,
    #[serde(rename = "Item")]
    pub item: Option<Item>,
}

#[derive(Serialize, Deserialize, Debug)]
pub struct Text {
    pub q: Option<String>,
    #[serde(rename = "type")]
    pub text_type: Option<String>,
    pub p: Option<String>,
    #[serde(rename = "r")]
    pub n_r: Option<String>,
}

#[derive(Serialize, Deserialize, Debug)]
pub struct B {
    pub q: String,
    pub p: String,
}

#[derive(Serialize, Deserialize, Debug)]
pub struct Item {
    pub q: String,
    #[serde(rename = "x-y")]
    pub x_y: String,
    #[serde(rename = "type")]
    pub item_type: String,
    pub id: String,
}

pub fn de(doc: &str) -> Result<String, String> { serde_xml_rs::from_str::<Foo>(doc).map(|v| format!("{:?}", v)).map_err(|e| e.to_string()) }
}
pub const DOCS: &[&str] = &[
    "<!-- c --><Foo n:r=\"v001\" id=\"v002\" x-y=\"v003\"><text q=\"v004\"/><text type=\"v005\" p=\"v006\" n:r=\"v007\"></text><b q=\"v008\" p=\"v009\"></b></Foo>",
    "<Foo type=\"v001\" p=\"v002\"><Item q=\"v003\" x-y=\"v004\" type=\"v005\" id=\"v006\"/></Foo>",
];
pub const VALUES: &[&[(&str, &str)]] = &[
    &[("attr", "v001"), ("attr", "v002"), ("attr", "v003"), ("attr", "v004"), ("attr", "v005"), ("attr", "v006"), ("attr", "v007"), ("attr", "v008"), ("attr", "v009"), ],
    &[("attr", "v001"), ("attr", "v002"), ("attr", "v003"), ("attr", "v004"), ("attr", "v005"), ("attr", "v006"), ],
];
pub fn run() { crate::report(44, DOCS, VALUES, a::de, b::de, c::de); }
