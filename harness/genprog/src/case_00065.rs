#![allow(dead_code, non_snake_case, non_camel_case_types, unused_imports)]
// variant a: the rendered source unchanged
pub mod a {
use serde::{Deserialize, Serialize};

#[derive(Serialize, Deserialize)]
pub struct D {
    #[serde(rename = "r")]
    pub n_r: Option<String>,
    pub p: Option<String>,
    pub id: Option<String>,
    pub q: Option<String>,
    pub d: Option<DD>,
}

#[derive(Serialize, Deserialize)]
pub struct DD {
    pub p: Option<String>,
    #[serde(rename = "r")]
    pub n_r: String,
    #[serde(rename = "$text")]
    pub text: Option<String>,
    pub b: Option<String>,
}

pub fn de(doc: &str) -> Result<(), String> { serde_xml_rs::from_str::<D>(doc).map(|_| ()).map_err(|e| e.to_string()) }
}
// variant b: every struct additionally denies unknown fields
pub mod b {
use serde::{Deserialize, Serialize};

#[derive(Serialize, Deserialize)]
#[serde(deny_unknown_fields)]
pub struct D {
    #[serde(rename = "r")]
    pub n_r: Option<String>,
    pub p: Option<String>,
    pub id: Option<String>,
    pub q: Option<String>,
    pub d: Option<DD>,
}

#[derive(Serialize, Deserialize)]
#[serde(deny_unknown_fields)]
pub struct DD {
    pub p: Option<String>,
    #[serde(rename = "r")]
    pub n_r: String,
    #[serde(rename = "$text")]
    pub text: Option<String>,
    pub b: Option<String>,
}

pub fn de(doc: &str) -> Result<(), String> { serde_xml_rs::from_str::<D>(doc).map(|_| ()).map_err(|e| e.to_string()) }
}
// variant c: rendered with Debug in the derive string, to inspect the value
pub mod c {
use serde::{Deserialize, Serialize};

#[derive(Serialize, Deserialize, Debug)]
pub struct D {
    #[serde(rename = "r")]
    pub n_r: Option<String>,
    pub p: Option<String>,
    pub id: Option<String>,
    pub q: Option<String>,
    pub d: Option<DD>,
}

#[derive(Serialize, Deserialize, Debug)]
pub struct DD {
    pub p: Option<String>,
    #[serde(rename = "r")]
    pub n_r: String,
    #[serde(rename = "$text")]
    pub text: Option<String>,
    pub b: Option<String>,
}

pub fn de(doc: &str) -> Result<String, String> { serde_xml_rs::from_str::<D>(doc).map(|v| format!("{:?}", v)).map_err(|e| e.to_string()) }
}
pub const DOCS: &[&str] = &[
    "<!DOCTYPE d><d n:r=\"v001\" p=\"v002\" id=\"v003\"><d p=\"v004\" n:r=\"v005\"><b>t006t007</b></d></d>",
    "<?xml version=\"1.0\" encoding=\"UTF-8\"?><d q=\"v001\"></d>",
    "<d n:r=\"v001\"><d n:r=\"v002\">t003t004</d></d>",
];
pub const VALUES: &[&[(&str, &str)]] = &[
    &[("attr", "v001"), ("attr", "v002"), ("attr", "v003"), ("attr", "v004"), ("attr", "v005"), ("text", "t006t007"), ],
    &[("attr", "v001"), ],
    &[("attr", "v001"), ("attr", "v002"), ("text", "t003t004"), ],
];
pub fn run() { crate::report(65, DOCS, VALUES, a::de, b::de, c::de); }
