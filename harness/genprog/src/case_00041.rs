#![allow(dead_code, non_snake_case, non_camel_case_types, unused_imports)]
// variant a: the rendered source unchanged
pub mod a {
use serde::{Deserialize, Serialize};

#[derive(Serialize, Deserialize)]
pub struct D {
    #[serde(rename = "type")]
    pub d_type: Option<String>,
    pub id: Option<String>,
    #[serde(rename = "r")]
    pub n_r: Option<String>,
    pub name: Option<Vec<DName>>,
}

#[derive(Serialize, Deserialize)]
pub struct DName {
    pub id: Option<String>,
    #[serde(rename = "type")]
    pub name_type: Option<String>,
    #[serde(rename = "r")]
    pub n_r: Option<String>,
    pub p: Option<String>,
    pub d: Option<Vec<DNameD>>,
    pub name: Option<NameName>,
    pub c: Option<C>,
}

#[derive(Serialize, Deserialize)]
pub struct DNameD {
    pub id: Option<String>,
    pub p: Option<String>,
    #[serde(rename = "r")]
    pub n_r: Option<String>,
    #[serde(rename = "type")]
    pub d_type: Option<String>,
}

#[derive(Serialize, Deserialize)]
pub struct NameName {
    pub q: String,
    pub p: String,
    #[serde(rename = "$text")]
    pub text: Option<String>,
}

#[derive(Serialize, Deserialize)]
pub struct C {
    pub q: String,
    #[serde(rename = "type")]
    pub c_type: Option<String>,
}

pub fn de(doc: &str) -> Result<(), String> { serde_xml_rs::from_str::<D>(doc).map(|_| ()).map_err(|e| e.to_string()) }
}
// variant b: every struct additionally denies unknown fields
pub mod b {
use serde::{Deserialize, Serialize};

#[derive(Serialize, Deserialize)]
#[serde(deny_unknown_fields)]
pub struct D {
    #[serde(rename = "type")]
    pub d_type: Option<String>,
    pub id: Option<String>,
    #[serde(rename = "r")]
    pub n_r: Option<String>,
    pub name: Option<Vec<DName>>,
}

#[derive(Serialize, Deserialize)]
#[serde(deny_unknown_fields)]
pub struct DName {
    pub id: Option<String>,
    #[serde(rename = "type")]
    pub name_type: Option<String>,
    #[serde(rename = "r")]
    pub n_r: Option<String>,
    pub p: Option<String>,
    pub d: Option<Vec<DNameD>>,
    pub name: Option<NameName>,
    pub c: Option<C>,
}

#[derive(Serialize, Deserialize)]
#[serde(deny_unknown_fields)]
pub struct DNameD {
    pub id: Option<String>,
    pub p: Option<String>,
    #[serde(rename = "r")]
    pub n_r: Option<String>,
    #[serde(rename = "type")]
    pub d_type: Option<String>,
}

#[derive(Serialize, Deserialize)]
#[serde(deny_unknown_fields)]
pub struct NameName {
    pub q: String,
    pub p: String,
    #[serde(rename = "$text")]
    pub text: Option<String>,
}

#[derive(Serialize, Deserialize)]
#[serde(deny_unknown_fields)]
pub struct C {
    pub q: String,
    #[serde(rename = "type")]
    pub c_type: Option<String>,
}

pub fn de(doc: &str) -> Result<(), String> { serde_xml_rs::from_str::<D>(doc).map(|_| ()).map_err(|e| e.to_string()) }
}
// variant c: rendered with Debug in the derive string, to inspect the value
pub mod c {
use serde::{Deserialize, Serialize};

#[derive(Serialize, Deserialize, Debug)]
pub struct D {
    #[serde(rename = "type")]
    pub d_type: Option<String>,
    pub id: Option<String>,
    #[serde(rename = "r")]
    pub n_r: Option<String>,
    pub name: Option<Vec<DName>>,
}

#[derive(Serialize, Deserialize, Debug)]
pub struct DName {
    pub id: Option<String>,
    #[serde(rename = "type")]
    pub name_type: Option<String>,
    #[serde(rename = "r")]
    pub n_r: Option<String>,
    pub p: Option<String>,
    pub d: Option<Vec<DNameD>>,
    pub name: Option<NameName>,
    pub c: Option<C>,
}

#[derive(Serialize, Deserialize, Debug)]
pub struct DNameD {
    pub id: Option<String>,
    pub p: Option<String>,
    #[serde(rename = "r")]
    pub n_r: Option<String>,
    #[serde(rename = "type")]
    pub d_type: Option<String>,
}

#[derive(Serialize, Deserialize, Debug)]
pub struct NameName {
    pub q: String,
    pub p: String,
    #[serde(rename = "$text")]
    pub text: Option<String>,
}

#[derive(Serialize, Deserialize, Debug)]
pub struct C {
    pub q: String,
    #[serde(rename = "type")]
    pub c_type: Option<String>,
}

pub fn de(doc: &str) -> Result<String, String> { serde_xml_rs::from_str::<D>(doc).map(|v| format!("{:?}", v)).map_err(|e| e.to_string()) }
}
pub const DOCS: &[&str] = &[
    "<?pi some data?><d type=\"v001\"></d>",
    "<?xml version=\"1.0\" encoding=\"UTF-8\"?><d id=\"v001\" n:r=\"v002\"><!--x--><!--y--><name id=\"v003\" type=\"v004\"><d id=\"v005\" p=\"v006\" n:r=\"v007\"></d><d type=\"v008\"/></name><name n:r=\"v009\" p=\"v010\"><name q=\"v011\" p=\"v012\">t013 &amp; more</name><c q=\"v014\"/><!-- c --><d id=\"v015\" n:r=\"v016\"/></name><name><c q=\"v017\" type=\"v018\"/></name></d>",
];
pub const VALUES: &[&[(&str, &str)]] = &[
    &[("attr", "v001"), ],
    &[("attr", "v001"), ("attr", "v002"), ("attr", "v003"), ("attr", "v004"), ("attr", "v005"), ("attr", "v006"), ("attr", "v007"), ("attr", "v008"), ("attr", "v009"), ("attr", "v010"), ("attr", "v011"), ("attr", "v012"), ("text", "t013 & more"), ("attr", "v014"), ("attr", "v015"), ("attr", "v016"), ("attr", "v017"), ("attr", "v018"), ],
];
pub fn run() { crate::report(41, DOCS, VALUES, a::de, b::de, c::de); }
