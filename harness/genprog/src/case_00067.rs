#![allow(dead_code, non_snake_case, non_camel_case_types, unused_imports)]
// variant a: the rendered source unchanged
pub mod a {
use serde::{Deserialize, Serialize};

#[derive(Serialize, Deserialize)]
pub struct Name {
    pub q: String,
    #[serde(rename = "r")]
    pub n_r: Option<String>,
    pub name: Option<NameName>,
}

#[derive(Serialize, Deserialize)]
pub struct NameName {
    pub name: NameNameName,
}

#[derive(Serialize, Deserialize)]
pub struct NameNameName {
    pub b: Vec<B>,
}

#[derive(Serialize, Deserialize)]
pub struct B {
    pub q: Option<String>,
    pub id: Option<String>,
    #[serde(rename = "type")]
    pub b_type: Option<String>,
    #[serde(rename = "$text")]
    pub text: Option<String>,
}

pub fn de(doc: &str) -> Result<(), String> { serde_xml_rs::from_str::<Name>(doc).map(|_| ()).map_err(|e| e.to_string()) }
}
// variant b: every struct additionally denies unknown fields
pub mod b {
use serde::{Deserialize, Serialize};

#[derive(Serialize, Deserialize)]
#[serde(deny_unknown_fields)]
pub struct Name {
    pub q: String,
    #[serde(rename = "r")]
    pub n_r: Option<String>,
    pub name: Option<NameName>,
}

#[derive(Serialize, Deserialize)]
#[serde(deny_unknown_fields)]
pub struct NameName {
    pub name: NameNameName,
}

#[derive(Serialize, Deserialize)]
#[serde(deny_unknown_fields)]
pub struct NameNameName {
    pub b: Vec<B>,
}

#[derive(Serialize, Deserialize)]
#[serde(deny_unknown_fields)]
pub struct B {
    pub q: Option<String>,
    pub id: Option<String>,
    #[serde(rename = "type")]
    pub b_type: Option<String>,
    #[serde(rename = "$text")]
    pub text: Option<String>,
}

pub fn de(doc: &str) -> Result<(), String> { serde_xml_rs::from_str::<Name>(doc).map(|_| ()).map_err(|e| e.to_string()) }
}
// variant c: rendered with Debug in the derive string, to inspect the value
pub mod c {
use serde::{Deserialize, Serialize};

#[derive(Serialize, Deserialize, Debug)]
pub struct Name {
    pub q: String,
    #[serde(rename = "r")]
    pub n_r: Option<String>,
    pub name: Option<NameName>,
}

#[derive(Serialize, Deserialize, Debug)]
pub struct NameName {
    pub name: NameNameName,
}

#[derive(Serialize, Deserialize, Debug)]
pub struct NameNameName {
    pub b: Vec<B>,
}

#[derive(Serialize, Deserialize, Debug)]
pub struct B {
    pub q: Option<String>,
    pub id: Option<String>,
    #[serde(rename = "type")]
    pub b_type: Option<String>,
    #[serde(rename = "$text")]
    pub text: Option<String>,
}

pub fn de(doc: &str) -> Result<String, String> { serde_xml_rs::from_str::<Name>(doc).map(|v| format!("{:?}", v)).map_err(|e| e.to_string()) }
}
pub const DOCS: &[&str] = &[
    "<?xml version=\"1.0\" encoding=\"UTF-8\"?><name q=\"v001\"/>",
    "<?target?><name n:r=\"v001\" q=\"v002\"><name><name><b q=\"v003\" id=\"v004\">t005<![CDATA[c006]]></b><b q=\"v007\" id=\"v008\" type=\"v009\"/><b>t010t011</b></name></name></name>",
];
pub const VALUES: &[&[(&str, &str)]] = &[
    &[("attr", "v001"), ],
    &[("attr", "v001"), ("attr", "v002"), ("attr", "v003"), ("attr", "v004"), ("text", "t005"), ("text", "c006"), ("attr", "v007"), ("attr", "v008"), ("attr", "v009"), ("text", "t010t011"), ],
];
pub fn run() { crate::report(67, DOCS, VALUES, a::de, b::de, c::de); }
