#![allow(dead_code, non_snake_case, non_camel_case_types, unused_imports)]
// variant a: the rendered source unchanged
pub mod a {
use serde::{Deserialize, Serialize};

#[derive(Serialize, Deserialize)]
pub struct Type {
    pub p: String,
    #[serde(rename = "type")]
    pub type_type: String,
    pub q: String,
    pub é: É,
}

#[derive(Serialize, Deserialize)]
pub struct É {
    #[serde(rename = "r")]
    pub n_r: String,
    pub крипта: Крипта,
}

#[derive(Serialize, Deserialize)]
pub struct Крипта {
    #[serde(rename = "r")]
    pub n_r: String,
    pub q: String,
    #[serde(rename = "$text")]
    pub text: Option<String>,
}

pub fn de(doc: &str) -> Result<(), String> { serde_xml_rs::from_str::<Type>(doc).map(|_| ()).map_err(|e| e.to_string()) }
}
// variant b: every struct additionally denies unknown fields
pub mod b {
use serde::{Deserialize, Serialize};

#[derive(Serialize, Deserialize)]
#[serde(deny_unknown_fields)]
pub struct Type {
    pub p: String,
    #[serde(rename = "type")]
    pub type_type: String,
    pub q: String,
    pub é: É,
}

#[derive(Serialize, Deserialize)]
#[serde(deny_unknown_fields)]
pub struct É {
    #[serde(rename = "r")]
    pub n_r: String,
    pub крипта: Крипта,
}

#[derive(Serialize, Deserialize)]
#[serde(deny_unknown_fields)]
pub struct Крипта {
    #[serde(rename = "r")]
    pub n_r: String,
    pub q: String,
    #[serde(rename = "$text")]
    pub text: Option<String>,
}

pub fn de(doc: &str) -> Result<(), String> { serde_xml_rs::from_str::<Type>(doc).map(|_| ()).map_err(|e| e.to_string()) }
}
// variant c: rendered with Debug in the derive string, to inspect the value
pub mod c {
use serde::{Deserialize, Serialize};

#[derive(Serialize, Deserialize, Debug)]
pub struct Type {
    pub p: String,
    #[serde(rename = "type")]
    pub type_type: String,
    pub q: String,
    pub é: É,
}

#[derive(Serialize, Deserialize, Debug)]
pub struct É {
    #[serde(rename = "r")]
    pub n_r: String,
    pub крипта: Крипта,
}

#[derive(Serialize, Deserialize, Debug)]
pub struct Крипта {
    #[serde(rename = "r")]
    pub n_r: String,
    pub q: String,
    #[serde(rename = "$text")]
    pub text: Option<String>,
}

pub fn de(doc: &str) -> Result<String, String> { serde_xml_rs::from_str::<Type>(doc).map(|v| format!("{:?}", v)).map_err(|e| e.to_string()) }
}
pub const DOCS: &[&str] = &[
    "<?xml version=\"1.0\" encoding=\"UTF-8\"?><type p=\"v001\" type=\"v002\" q=\"v003\"><é n:r=\"v004\"><крипта n:r=\"v005\" q=\"v006\"><![CDATA[c007]]></крипта></é></type>",
];
pub const VALUES: &[&[(&str, &str)]] = &[
    &[("attr", "v001"), ("attr", "v002"), ("attr", "v003"), ("attr", "v004"), ("attr", "v005"), ("attr", "v006"), ("text", "c007"), ],
];
pub fn run() { crate::report(32, DOCS, VALUES, a::de, b::de, c::de); }
