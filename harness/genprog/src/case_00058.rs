#![allow(dead_code, non_snake_case, non_camel_case_types, unused_imports)]
// variant a: the rendered source unchanged
pub mod a {
use serde::{Deserialize, Serialize};

#[derive(Serialize, Deserialize)]
pub struct Foo {
    #[serde(rename = "Foo")]
    pub foo: FooFoo,
}

#[derive(Serialize, Deserialize)]
pub struct FooFoo {
    #[serde(rename = "type")]
    pub foo_type: String,
    #[serde(rename = "match")]
    pub foo_match: Match,
}

#[derive(Serialize, Deserialize)]
pub struct Match {
    #[serde(rename = "type")]
    pub match_type: String,
    pub p: String,
}

pub fn de(doc: &str) -> Result<(), String> { serde_xml_rs::from_str::<Foo>(doc).map(|_| ()).map_err(|e| e.to_string()) }
}
// variant b: every struct additionally denies unknown fields
pub mod b {
use serde::{Deserialize, Serialize};

#[derive(Serialize, Deserialize)]
#[serde(deny_unknown_fields)]
pub struct Foo {
    #[serde(rename = "Foo")]
    pub foo: FooFoo,
}

#[derive(Serialize, Deserialize)]
#[serde(deny_unknown_fields)]
pub struct FooFoo {
    #[serde(rename = "type")]
    pub foo_type: String,
    #[serde(rename = "match")]
    pub foo_match: Match,
}

#[derive(Serialize, Deserialize)]
#[serde(deny_unknown_fields)]
pub struct Match {
    #[serde(rename = "type")]
    pub match_type: String,
    pub p: String,
}

pub fn de(doc: &str) -> Result<(), String> { serde_xml_rs::from_str::<Foo>(doc).map(|_| ()).map_err(|e| e.to_string()) }
}
// variant c: rendered with Debug in the derive string, to inspect the value
pub mod c {
use serde::{Deserialize, Serialize};

#[derive(Serialize, Deserialize, Debug)]
pub struct Foo {
    #[serde(rename = "Foo")]
    pub foo: FooFoo,
}

#[derive(Serialize, Deserialize, Debug)]
pub struct FooFoo {
    #[serde(rename = "type")]
    pub foo_type: String,
    #[serde(rename = "match")]
    pub foo_match: Match,
}

#[derive(Serialize, Deserialize, Debug)]
pub struct Match {
    #[serde(rename = "type")]
    pub match_type: String,
    pub p: String,
}

pub fn de(doc: &str) -> Result<String, String> { serde_xml_rs::from_str::<Foo>(doc).map(|v| format!("{:?}", v)).map_err(|e| e.to_string()) }
}
pub const DOCS: &[&str] = &[
    "<Foo><Foo type=\"v001\"><match type=\"v002\" p=\"v003\"/></Foo></Foo>",
];
pub const VALUES: &[&[(&str, &str)]] = &[
    &[("attr", "v001"), ("attr", "v002"), ("attr", "v003"), ],
];
pub fn run() { crate::report(58, DOCS, VALUES, a::de, b::de, c::de); }
