#![allow(dead_code, non_snake_case, non_camel_case_types, unused_imports)]
// variant a: the rendered source unchanged
pub mod a {
use serde::{Deserialize, Serialize};

#[derive(Serialize, Deserialize)]
pub struct D {
    #[serde(rename = "type")]
    pub d_type: Option<String>,
    pub q: Option<String>,
    #[serde(rename = "r")]
    pub n_r: Option<String>,
    pub p: Option<String>,
    #[serde(rename = "$text")]
    pub text: Option<String>,
}

pub fn de(doc: &str) -> Result<(), String> { serde_xml_rs::from_str::<D>(doc).map(|_| ()).map_err(|e| e.to_string()) }
}
// variant b: every struct additionally denies unknown fields
pub mod b {
use serde::{Deserialize, Serialize};

#[derive(Serialize, Deserialize)]
#[serde(deny_unknown_fields)]
pub struct D {
    #[serde(rename = "type")]
    pub d_type: Option<String>,
    pub q: Option<String>,
    #[serde(rename = "r")]
    pub n_r: Option<String>,
    pub p: Option<String>,
    #[serde(rename = "$text")]
    pub text: Option<String>,
}

pub fn de(doc: &str) -> Result<(), String> { serde_xml_rs::from_str::<D>(doc).map(|_| ()).map_err(|e| e.to_string()) }
}
// variant c: rendered with Debug in the derive string, to inspect the value
pub mod c {
use serde::{Deserialize, Serialize};

#[derive(Serialize, Deserialize, Debug)]
pub struct D {
    #[serde(rename = "type")]
    pub d_type: Option<String>,
    pub q: Option<String>,
    #[serde(rename = "r")]
    pub n_r: Option<String>,
    pub p: Option<String>,
    #[serde(rename = "$text")]
    pub text: Option<String>,
}

pub fn de(doc: &str) -> Result<String, String> { serde_xml_rs::from_str::<D>(doc).map(|v| format!("{:?}", v)).map_err(|e| e.to_string()) }
}
pub const DOCS: &[&str] = &[
    "<d type=\"v001\"></d>\n",
    "<?xml version=\"1.0\" encoding=\"UTF-8\"?>\n<d type=\"v001\" q=\"v002\">t003t004 &amp; more</d>\n",
    "<d n:r=\"v001\" p=\"v002\" q=\"v003\">t004</d>\n",
];
pub const VALUES: &[&[(&str, &str)]] = &[
    &[("attr", "v001"), ],
    &[("attr", "v001"), ("attr", "v002"), ("text", "t003t004 & more"), ],
    &[("attr", "v001"), ("attr", "v002"), ("attr", "v003"), ("text", "t004"), ],
];
pub fn run() { crate::report(33, DOCS, VALUES, a::de, b::de, c::de); }
