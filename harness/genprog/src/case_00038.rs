#![allow(dead_code, non_snake_case, non_camel_case_types, unused_imports)]
// variant a: the rendered source unchanged
pub mod a {
use serde::{Deserialize, Serialize};

#[derive(Serialize, Deserialize)]
pub struct AB {
    #[serde(rename = "type")]
    pub a_b_type: String,
    pub p: Option<String>,
    #[serde(rename = "r")]
    pub n_r: Option<String>,
    pub q: Option<String>,
    #[serde(rename = "$text")]
    pub text: Option<String>,
}

pub fn de(doc: &str) -> Result<(), String> { serde_xml_rs::from_str::<AB>(doc).map(|_| ()).map_err(|e| e.to_string()) }
}
// variant b: every struct additionally denies unknown fields
pub mod b {
use serde::{Deserialize, Serialize};

#[derive(Serialize, Deserialize)]
#[serde(deny_unknown_fields)]
pub struct AB {
    #[serde(rename = "type")]
    pub a_b_type: String,
    pub p: Option<String>,
    #[serde(rename = "r")]
    pub n_r: Option<String>,
    pub q: Option<String>,
    #[serde(rename = "$text")]
    pub text: Option<String>,
}

pub fn de(doc: &str) -> Result<(), String> { serde_xml_rs::from_str::<AB>(doc).map(|_| ()).map_err(|e| e.to_string()) }
}
// variant c: rendered with Debug in the derive string, to inspect the value
pub mod c {
use serde::{Deserialize, Serialize};

#[derive(Serialize, Deserialize, Debug)]
pub struct AB {
    #[serde(rename = "type")]
    pub a_b_type: String,
    pub p: Option<String>,
    #[serde(rename = "r")]
    pub n_r: Option<String>,
    pub q: Option<String>,
    #[serde(rename = "$text")]
    pub text: Option<String>,
}

pub fn de(doc: &str) -> Result<String, String> { serde_xml_rs::from_str::<AB>(doc).map(|v| format!("{:?}", v)).map_err(|e| e.to_string()) }
}
pub const DOCS: &[&str] = &[
    "<a-b type=\"v001\" p=\"v002\"></a-b>",
    "<?xml version=\"1.0\" encoding=\"UTF-8\"?><a-b n:r=\"v001\" type=\"v002\" q=\"v003\">t004 &amp; moret005</a-b>",
];
pub const VALUES: &[&[(&str, &str)]] = &[
    &[("attr", "v001"), ("attr", "v002"), ],
    &[("attr", "v001"), ("attr", "v002"), ("attr", "v003"), ("text", "t004 & moret005"), ],
];
pub fn run() { crate::report(38, DOCS, VALUES, a::de, b::de, c::de); }
