#![allow(dead_code, non_snake_case, non_camel_case_types, unused_imports)]
// variant a: the rendered source unchanged
pub mod a {
use serde::{Deserialize, Serialize};

#[derive(Serialize, Deserialize)]
pub struct Foo {
    #[serde(rename = "type")]
    pub foo_type: String,
    #[serde(rename = "x-y")]
    pub x_y: String,
    #[serde(rename = "r")]
    pub n_r: String,
    #[serde(rename = "$text")]
    pub text: Option<String>,
    #[serde(rename = "Foo")]
    pub foo: FooFoo,
}

#[derive(Serialize, Deserialize)]
pub struct FooFoo {
    #[serde(rename = "x-y")]
    pub x_y: String,
    #[serde(rename = "type")]
    pub foo_type: String,
    #[serde(rename = "$text")]
    pub text: Option<String>,
    pub крипта: Vec<Крипта>,
}

#[derive(Serialize, Deserialize)]
pub struct Крипта {
    pub id: Option<String>,
    #[serde(rename = "type")]
    pub крипта_type: Option<String>,
    #[serde(rename = "$text")]
    pub text: Option<String>,
    #[serde(rename = "Total")]
    pub total: Option<Total>,
    #[serde(rename = "Item")]
    pub item: Option<Vec<Item>>,
}

#[derive(Serialize, Deserialize)]
pub struct Total {
    pub id: String,
    pub p: String,
}

#[derive(Serialize, Deserialize)]
pub struct Item {
    pub p: Option<String>,
    #[serde(rename = "type")]
    pub item_type: Option<String>,
    #[serde(rename = "$text")]
    pub text: Option<String>,
}

pub fn de(doc: &str) -> Result<(), String> { serde_xml_rs::from_str::<Foo>(doc).map(|_| ()).map_err(|e| e.to_string()) }
}
// variant b: every struct additionally denies unknown fields
pub mod b {
use serde::{Deserialize, Serialize};

#[derive(Serialize, Deserialize)]
#[serde(deny_unknown_fields)]
pub struct Foo {
    #[serde(rename = "type")]
    pub foo_type: String,
    #[serde(rename = "x-y")]
    pub x_y: String,
    #[serde(rename = "r")]
    pub n_r: String,
    #[serde(rename = "$text")]
    pub text: Option<String>,
    #[serde(rename = "Foo")]
    pub foo: FooFoo,
}

#[derive(Serialize, Deserialize)]
#[serde(deny_unknown_fields)]
pub struct FooFoo {
    #[serde(rename = "x-y")]
    pub x_y: String,
    #[serde(rename = "type")]
    pub foo_type: String,
    #[serde(rename = "$text")]
    pub text: Option<String>,
    pub крипта: Vec<Крипта>,
}

#[derive(Serialize, Deserialize)]
#[serde(deny_unknown_fields)]
pub struct Крипта {
    pub id: Option<String>,
    #[serde(rename = "type")]
    pub крипта_type: Option<String>,
    #[serde(rename = "$text")]
    pub text: Option<String>,
    #[serde(rename = "Total")]
    pub total: Option<Total>,
    #[serde(rename = "Item")]
    pub item: Option<Vec<Item>>,
}

#[derive(Serialize, Deserialize)]
#[serde(deny_unknown_fields)]
pub struct Total {
    pub id: String,
    pub p: String,
}

#[derive(Serialize, Deserialize)]
#[serde(deny_unknown_fields)]
pub struct Item {
    pub p: Option<String>,
    #[serde(rename = "type")]
    pub item_type: Option<String>,
    #[serde(rename = "$text")]
    pub text: Option<String>,
}

pub fn de(doc: &str) -> Result<(), String> { serde_xml_rs::from_str::<Foo>(doc).map(|_| ()).map_err(|e| e.to_string()) }
}
// variant c: rendered with Debug in the derive string, to inspect the value
pub mod c {
use serde::{Deserialize, Serialize};

#[derive(Serialize, Deserialize, Debug)]
pub struct Foo {
    #[serde(rename = "type")]
    pub foo_type: String,
    #[serde(rename = "x-y")]
    pub x_y: String,
    #[serde(rename = "r")]
    pub n_r: String,
    #[serde(rename = "$text")]
    pub text: Option<String>,
    #[serde(rename = "Foo")]
    pub foo: FooFoo,
}

#[derive(Serialize, Deserialize, Debug)]
pub struct FooFoo {
    #[serde(rename = "x-y")]
    pub x_y: String,
    #[serde(rename = "type")]
    pub foo_type: String,
    #[serde(rename = "$text")]
    pub text: Option<String>,
    pub крипта: Vec<Крипта>,
}

#[derive(Serialize, Deserialize, Debug)]
pub struct Крипта {
    pub id: Option<String>,
    #[serde(rename = "type")]
    pub крипта_type: Option<String>,
    #[serde(rename = "$text")]
    pub text: Option<String>,
    #[serde(rename = "Total")]
    pub total: Option<Total>,
    #[serde(rename = "Item")]
    pub item: Option<Vec<Item>>,
}

#[derive(Serialize, Deserialize, Debug)]
pub struct Total {
    pub id: String,
    pub p: String,
}

#[derive(Serialize, Deserialize, Debug)]
pub struct Item {
    pub p: Option<String>,
    #[serde(rename = "type")]
    pub item_type: Option<String>,
    #[serde(rename = "$text")]
    pub text: Option<String>,
}

pub fn de(doc: &str) -> Result<String, String> { serde_xml_rs::from_str::<Foo>(doc).map(|v| format!("{:?}", v)).map_err(|e| e.to_string()) }
}
pub const DOCS: &[&str] = &[
    "<Foo type=\"v001\" x-y=\"v002\" n:r=\"v003\">\n    <Foo x-y=\"v004\" type=\"v005\">\n      <крипта id=\"v006\" type=\"v007\">\n        <Total id=\"v008\" p=\"v009\"/>\n      </крипта>\n      <крипта>\n        <Item p=\"v010\"></Item>\n        <Item type=\"v011\">t012t013 &amp; more</Item>\n      </крипта>\n    </Foo>\n  </Foo>\n",
];
pub const VALUES: &[&[(&str, &str)]] = &[
    &[("attr", "v001"), ("attr", "v002"), ("attr", "v003"), ("attr", "v004"), ("attr", "v005"), ("attr", "v006"), ("attr", "v007"), ("attr", "v008"), ("attr", "v009"), ("attr", "v010"), ("attr", "v011"), ("text", "t012t013 & more"), ],
];
pub fn run() { crate::report(30, DOCS, VALUES, a::de, b::de, c::de); }
