#![allow(dead_code, non_snake_case, non_camel_case_types, unused_imports)]
// variant a: the rendered source unchanged
pub mod a {
use serde::{Deserialize, Serialize};

#[derive(Serialize, Deserialize)]
pub struct É {
    #[serde(rename = "x-y")]
    pub x_y: String,
    pub id: String,
    pub p: String,
    pub é: Vec<ÉÉ>,
}

#[derive(Serialize, Deserialize)]
pub struct ÉÉ {
    #[serde(rename = "r")]
    pub n_r: String,
    #[serde(rename = "type")]
    pub é_type: String,
    pub q: String,
    #[serde(rename = "x-y")]
    pub x_y: Option<String>,
    pub é: Vec<ÉÉÉ>,
}

#[derive(Serialize, Deserialize)]
pub struct ÉÉÉ {
    pub p: Option<String>,
    #[serde(rename = "x-y")]
    pub x_y: Option<String>,
    pub id: Option<String>,
    #[serde(rename = "$text")]
    pub text: Option<String>,
}

pub fn de(doc: &str) -> Result<(), String> { serde_xml_rs::from_str::<É>(doc).map(|_| ()).map_err(|e| e.to_string()) }
}
// variant b: every struct additionally denies unknown fields
pub mod b {
use serde::{Deserialize, Serialize};

#[derive(Serialize, Deserialize)]
#[serde(deny_unknown_fields)]
pub struct É {
    #[serde(rename = "x-y")]
    pub x_y: String,
    pub id: String,
    pub p: String,
    pub é: Vec<ÉÉ>,
}

#[derive(Serialize, Deserialize)]
#[serde(deny_unknown_fields)]
pub struct ÉÉ {
    #[serde(rename = "r")]
    pub n_r: String,
    #[serde(rename = "type")]
    pub é_type: String,
    pub q: String,
    #[serde(rename = "x-y")]
    pub x_y: Option<String>,
    pub é: Vec<ÉÉÉ>,
}

#[derive(Serialize, Deserialize)]
#[serde(deny_unknown_fields)]
pub struct ÉÉÉ {
    pub p: Option<String>,
    #[serde(rename = "x-y")]
    pub x_y: Option<String>,
    pub id: Option<String>,
    #[serde(rename = "$text")]
    pub text: Option<String>,
}

pub fn de(doc: &str) -> Result<(), String> { serde_xml_rs::from_str::<É>(doc).map(|_| ()).map_err(|e| e.to_string()) }
}
// variant c: rendered with Debug in the derive string, to inspect the value
pub mod c {
use serde::{Deserialize, Serialize};

#[derive(Serialize, Deserialize, Debug)]
pub struct É {
    #[serde(rename = "x-y")]
    pub x_y: String,
    pub id: String,
    pub p: String,
    pub é: Vec<ÉÉ>,
}

#[derive(Serialize, Deserialize, Debug)]
pub struct ÉÉ {
    #[serde(rename = "r")]
    pub n_r: String,
    #[serde(rename = "type")]
    pub é_type: String,
    pub q: String,
    #[serde(rename = "x-y")]
    pub x_y: Option<String>,
    pub é: Vec<ÉÉÉ>,
}

#[derive(Serialize, Deserialize, Debug)]
pub struct ÉÉÉ {
    pub p: Option<String>,
    #[serde(rename = "x-y")]
    pub x_y: Option<String>,
    pub id: Option<String>,
    #[serde(rename = "$text")]
    pub text: Option<String>,
}

pub fn de(doc: &str) -> Result<String, String> { serde_xml_rs::from_str::<É>(doc).map(|v| format!("{:?}", v)).map_err(|e| e.to_string()) }
}
pub const DOCS: &[&str] = &[
    "<é x-y=\"v001\" id=\"v002\" p=\"v003\"><é n:r=\"v004\" type=\"v005\" q=\"v006\" x-y=\"v007\"><é p=\"v008\" x-y=\"v009\">t010 &amp; more</é><é id=\"v011\" x-y=\"v012\" p=\"v013\">t014 &amp; more<![CDATA[c015]]></é></é><!--x--><!--y--><é type=\"v016\" q=\"v017\" n:r=\"v018\"><é/></é></é>",
];
pub const VALUES: &[&[(&str, &str)]] = &[
    &[("attr", "v001"), ("attr", "v002"), ("attr", "v003"), ("attr", "v004"), ("attr", "v005"), ("attr", "v006"), ("attr", "v007"), ("attr", "v008"), ("attr", "v009"), ("text", "t010 & more"), ("attr", "v011"), ("attr", "v012"), ("attr", "v013"), ("text", "t014 & more"), ("text", "c015"), ("attr", "v016"), ("attr", "v017"), ("attr", "v018"), ],
];
pub fn run() { crate::report(52, DOCS, VALUES, a::de, b::de, c::de); }
