#![allow(dead_code, non_snake_case, non_camel_case_types, unused_imports)]
// variant a: the rendered source unchanged
pub mod a {
use serde::{Deserialize, Serialize};

#[derive(Serialize, Deserialize)]
pub struct Крипта {
    #[serde(rename = "r")]
    pub n_r: String,
    #[serde(rename = "type")]
    pub крипта_type: String,
    pub id: Option<String>,
    #[serde(rename = "x-y")]
    pub x_y: Option<String>,
    pub q: Option<String>,
    #[serde(rename = "$text")]
    pub text: Option<String>,
    pub крипта: Option<КриптаКрипта>,
    #[serde(rename = "Item")]
    pub item: Option<Item>,
}

#[derive(Serialize, Deserialize)]
pub struct КриптаКрипта {
    pub id: String,
    #[serde(rename = "x-y")]
    pub x_y: String,
    pub p: String,
    pub q: String,
}

#[derive(Serialize, Deserialize)]
pub struct Item {
    pub p: String,
    #[serde(rename = "$text")]
    pub text: Option<String>,
    pub крипта: КриптаItemКрипта,
}

#[derive(Serialize, Deserialize)]
pub struct КриптаItemКрипта {
    #[serde(rename = "type")]
    pub крипта_type: String,
    pub q: String,
    #[serde(rename = "$text")]
    pub text: Option<String>,
    pub крипта: КриптаItemКриптаКрипта,
}

#[derive(Serialize, Deserialize)]
pub struct КриптаItemКриптаКрипта {
    #[serde(rename = "type")]
    pub крипта_type: String,
    #[serde(rename = "$text")]
    pub text: Option<String>,
}

pub fn de(doc: &str) -> Result<(), String> { serde_xml_rs::from_str::<Крипта>(doc).map(|_| ()).map_err(|e| e.to_string()) }
}
// variant b: every struct additionally denies unknown fields
pub mod b {
use serde::{Deserialize, Serialize};

#[derive(Serialize, Deserialize)]
#[serde(deny_unknown_fields)]
pub struct Крипта {
    #[serde(rename = "r")]
    pub n_r: String,
    #[serde(rename = "type")]
    pub крипта_type: String,
    pub id: Option<String>,
    #[serde(rename = "x-y")]
    pub x_y: Option<String>,
    pub q: Option<String>,
    #[serde(rename = "$text")]
    pub text: Option<String>,
    pub крипта: Option<КриптаКрипта>,
    #[serde(rename = "Item")]
    pub item: Option<Item>,
}

#[derive(Serialize, Deserialize)]
#[serde(deny_unknown_fields)]
pub struct КриптаКрипта {
    pub id: String,
    #[serde(rename = "x-y")]
    pub x_y: String,
    pub p: String,
    pub q: String,
}

#[derive(Serialize, Deserialize)]
#[serde(deny_unknown_fields)]
pub struct Item {
    pub p: String,
    #[serde(rename = "$text")]
    pub text: Option<String>,
    pub крипта: КриптаItemКрипта,
}

#[derive(Serialize, Deserialize)]
#[serde(deny_unknown_fields)]
pub struct КриптаItemКрипта {
    #[serde(rename = "type")]
    pub крипта_type: String,
    pub q: String,
    #[serde(rename = "$text")]
    pub text: Option<String>,
    pub крипта: КриптаItemКриптаКрипта,
}

#[derive(Serialize, Deserialize)]
#[serde(deny_unknown_fields)]
pub struct КриптаItemКриптаКрипта {
    #[serde(rename = "type")]
    pub крипта_type: String,
    #[serde(rename = "$text")]
    pub text: Option<String>,
}

pub fn de(doc: &str) -> Result<(), String> { serde_xml_rs::from_str::<Крипта>(doc).map(|_| ()).map_err(|e| e.to_string()) }
}
// variant c: rendered with Debug in the derive string, to inspect the value
pub mod c {
use serde::{Deserialize, Serialize};

#[derive(Serialize, Deserialize, Debug)]
pub struct Крипта {
    #[serde(rename = "r")]
    pub n_r: String,
    #[serde(rename = "type")]
    pub крипта_type: String,
    pub id: Option<String>,
    #[serde(rename = "x-y")]
    pub x_y: Option<String>,
    pub q: Option<String>,
    #[serde(rename = "$text")]
    pub text: Option<String>,
    pub крипта: Option<КриптаКрипта>,
    #[serde(rename = "Item")]
    pub item: Option<Item>,
}

#[derive(Serialize, Deserialize, Debug)]
pub struct КриптаКрипта {
    pub id: String,
    #[serde(rename = "x-y")]
    pub x_y: String,
    pub p: String,
    pub q: String,
}

#[derive(Serialize, Deserialize, Debug)]
pub struct Item {
    pub p: String,
    #[serde(rename = "$text")]
    pub text: Option<String>,
    pub крипта: КриптаItemКрипта,
}

#[derive(Serialize, Deserialize, Debug)]
pub struct КриптаItemКрипта {
    #[serde(rename = "type")]
    pub крипта_type: String,
    pub q: String,
    #[serde(rename = "$text")]
    pub text: Option<String>,
    pub крипта: КриптаItemКриптаКрипта,
}

#[derive(Serialize, Deserialize, Debug)]
pub struct КриптаItemКриптаКрипта {
    #[serde(rename = "type")]
    pub крипта_type: String,
    #[serde(rename = "$text")]
    pub text: Option<String>,
}

pub fn de(doc: &str) -> Result<String, String> { serde_xml_rs::from_str::<Крипта>(doc).map(|v| format!("{:?}", v)).map_err(|e| e.to_string()) }
}
pub const DOCS: &[&str] = &[
    "<крипта n:r=\"v001\" type=\"v002\">\n    <?pi some data?><крипта id=\"v003\" x-y=\"v004\" p=\"v005\" q=\"v006\"></крипта>\n  </крипта>\n",
    "<крипта id=\"v001\" n:r=\"v002\" x-y=\"v003\" q=\"v004\" type=\"v005\">\n    <Item p=\"v006\">\n      <крипта type=\"v007\" q=\"v008\">\n        <крипта type=\"v009\">t010<![CDATA[c011]]></крипта>\n      </крипта>\n    </Item>\n  </крипта>\n",
];
pub const VALUES: &[&[(&str, &str)]] = &[
    &[("attr", "v001"), ("attr", "v002"), ("attr", "v003"), ("attr", "v004"), ("attr", "v005"), ("attr", "v006"), ],
    &[("attr", "v001"), ("attr", "v002"), ("attr", "v003"), ("attr", "v004"), ("attr", "v005"), ("attr", "v006"), ("attr", "v007"), ("attr", "v008"), ("attr", "v009"), ("text", "t010"), ("text", "c011"), ],
];
pub fn run() { crate::report(42, DOCS, VALUES, a::de, b::de, c::de); }
