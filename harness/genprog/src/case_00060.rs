#![allow(dead_code, non_snake_case, non_camel_case_types, unused_imports)]
// variant a: the rendered source unchanged
pub mod a {
use serde::{Deserialize, Serialize};

#[derive(Serialize, Deserialize)]
pub struct Text {
    #[serde(rename = "r")]
    pub n_r: Option<String>,
    pub id: Option<String>,
    #[serde(rename = "type")]
    pub text_type: Option<String>,
    pub q: Option<String>,
    pub p: Option<String>,
    #[serde(rename = "$text")]
    pub text: Option<String>,
}

pub fn de(doc: &str) -> Result<(), String> { serde_xml_rs::from_str::<Text>(doc).map(|_| ()).map_err(|e| e.to_string()) }
}
// variant b: every struct additionally denies unknown fields
pub mod b {
use serde::{Deserialize, Serialize};

#[derive(Serialize, Deserialize)]
#[serde(deny_unknown_fields)]
pub struct Text {
    #[serde(rename = "r")]
    pub n_r: Option<String>,
    pub id: Option<String>,
    #[serde(rename = "type")]
    pub text_type: Option<String>,
    pub q: Option<String>,
    pub p: Option<String>,
    #[serde(rename = "$text")]
    pub text: Option<String>,
}

pub fn de(doc: &str) -> Result<(), String> { serde_xml_rs::from_str::<Text>(doc).map(|_| ()).map_err(|e| e.to_string()) }
}
// variant c: rendered with Debug in the derive string, to inspect the value
pub mod c {
use serde::{Deserialize, Serialize};

#[derive(Serialize, Deserialize, Debug)]
pub struct Text {
    #[serde(rename = "r")]
    pub n_r: Option<String>,
    pub id: Option<String>,
    #[serde(rename = "type")]
    pub text_type: Option<String>,
    pub q: Option<String>,
    pub p: Option<String>,
    #[serde(rename = "$text")]
    pub text: Option<String>,
}

pub fn de(doc: &str) -> Result<String, String> { serde_xml_rs::from_str::<Text>(doc).map(|v| format!("{:?}", v)).map_err(|e| e.to_string()) }
}
pub const DOCS: &[&str] = &[
    "<?xml version=\"1.0\" encoding=\"UTF-8\"?>\n<text n:r=\"v001\" id=\"v002\"/>\n",
    "<?xml version=\"1.0\" encoding=\"UTF-8\"?>\n<!-- c --><text type=\"v001\">t002<![CDATA[c003]]></text>\n",
    "<!--x--><!--y--><text q=\"v001\" p=\"v002\" n:r=\"v003\" id=\"v004\">t005t006</text>\n",
];
pub const VALUES: &[&[(&str, &str)]] = &[
    &[("attr", "v001"), ("attr", "v002"), ],
    &[("attr", "v001"), ("text", "t002"), ("text", "c003"), ],
    &[("attr", "v001"), ("attr", "v002"), ("attr", "v003"), ("attr", "v004"), ("text", "t005t006"), ],
];
pub fn run() { crate::report(60, DOCS, VALUES, a::de, b::de, c::de); }
