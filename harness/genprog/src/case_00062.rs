#![allow(dead_code, non_snake_case, non_camel_case_types, unused_imports)]
// variant a: the rendered source unchanged
pub mod a {
use serde::{Deserialize, Serialize};

#[derive(Serialize, Deserialize)]
pub struct Total {
    pub q: Option<String>,
    pub id: String,
    #[serde(rename = "r")]
    pub n_r: Option<String>,
    #[serde(rename = "type")]
    pub total_type_attr: Option<String>,
    #[serde(rename = "x-y")]
    pub x_y: Option<String>,
    #[serde(rename = "$text")]
    pub text: Option<String>,
    #[serde(rename = "type")]
    pub total_type: Option<Vec<Type>>,
    #[serde(rename = "Total")]
    pub total: Option<TotalTotal>,
}

#[derive(Serialize, Deserialize)]
pub struct Type {
    pub id: Option<String>,
    pub q: Option<String>,
    #[serde(rename = "x-y")]
    pub x_y: Option<String>,
}

#[derive(Serialize, Deserialize)]
pub struct TotalTotal {
    pub q: String,
}

pub fn de(doc: &str) -> Result<(), String> { serde_xml_rs::from_str::<Total>(doc).map(|_| ()).map_err(|e| e.to_string()) }
}
// variant b: every struct additionally denies unknown fields
pub mod b {
use serde::{Deserialize, Serialize};

#[derive(Serialize, Deserialize)]
#[serde(deny_unknown_fields)]
pub struct Total {
    pub q: Option<String>,
    pub id: String,
    #[serde(rename = "r")]
    pub n_r: Option<String>,
    #[serde(rename = "type")]
    pub total_type_attr: Option<String>,
    #[serde(rename = "x-y")]
    pub x_y: Option<String>,
    #[serde(rename = "$text")]
    pub text: Option<String>,
    #[serde(rename = "type")]
    pub total_type: Option<Vec<Type>>,
    #[serde(rename = "Total")]
    pub total: Option<TotalTotal>,
}

#[derive(Serialize, Deserialize)]
#[serde(deny_unknown_fields)]
pub struct Type {
    pub id: Option<String>,
    pub q: Option<String>,
    #[serde(rename = "x-y")]
    pub x_y: Option<String>,
}

#[derive(Serialize, Deserialize)]
#[serde(deny_unknown_fields)]
pub struct TotalTotal {
    pub q: String,
}

pub fn de(doc: &str) -> Result<(), String> { serde_xml_rs::from_str::<Total>(doc).map(|_| ()).map_err(|e| e.to_string()) }
}
// variant c: rendered with Debug in the derive string, to inspect the value
pub mod c {
use serde::{Deserialize, Serialize};

#[derive(Serialize, Deserialize, Debug)]
pub struct Total {
    pub q: Option<String>,
    pub id: String,
    #[serde(rename = "r")]
    pub n_r: Option<String>,
    #[serde(rename = "type")]
    pub total_type_attr: Option<String>,
    #[serde(rename = "x-y")]
    pub x_y: Option<String>,
    #[serde(rename = "$text")]
    pub text: Option<String>,
    #[serde(rename = "type")]
    pub total_type: Option<Vec<Type>>,
    #[serde(rename = "Total")]
    pub total: Option<TotalTotal>,
}

#[derive(Serialize, Deserialize, Debug)]
pub struct Type {
    pub id: Option<String>,
    pub q: Option<String>,
    #[serde(rename = "x-y")]
    pub x_y: Option<String>,
}

#[derive(Serialize, Deserialize, Debug)]
pub struct TotalTotal {
    pub q: String,
}

pub fn de(doc: &str) -> Result<String, String> { serde_xml_rs::from_str::<Total>(doc).map(|v| format!("{:?}", v)).map_err(|e| e.to_string()) }
}
pub const DOCS: &[&str] = &[
    "<?xml version=\"1.0\" encoding=\"UTF-8\"?><Total q=\"v001\" id=\"v002\" n:r=\"v003\" type=\"v004\">t005t006</Total>",
    "<?xml version=\"1.0\" encoding=\"UTF-8\"?><Total n:r=\"v001\" x-y=\"v002\" id=\"v003\"><type/><type id=\"v004\" q=\"v005\" x-y=\"v006\"/></Total>",
    "<?xml version=\"1.0\" encoding=\"UTF-8\"?><Total x-y=\"v001\" q=\"v002\" id=\"v003\"><Total q=\"v004\"></Total></Total><!--x--><!--y-->",
];
pub const VALUES: &[&[(&str, &str)]] = &[
    &[("attr", "v001"), ("attr", "v002"), ("attr", "v003"), ("attr", "v004"), ("text", "t005t006"), ],
    &[("attr", "v001"), ("attr", "v002"), ("attr", "v003"), ("attr", "v004"), ("attr", "v005"), ("attr", "v006"), ],
    &[("attr", "v001"), ("attr", "v002"), ("attr", "v003"), ("attr", "v004"), ],
];
pub fn run() { crate::report(62, DOCS, VALUES, a::de, b::de, c::de); }
