#![allow(dead_code, non_snake_case, non_camel_case_types, unused_imports)]
// variant a: the rendered source unchanged
pub mod a {
use serde::{Deserialize, Serialize};

#[derive(Serialize, Deserialize)]
pub struct C {
    pub p: Option<String>,
    #[serde(rename = "r")]
    pub n_r: Option<String>,
    pub id: Option<String>,
    pub q: Option<String>,
    pub name: Option<Vec<Name>>,
    pub c: Vec<CC>,
}

#[derive(Serialize, Deserialize)]
pub struct Name {
    pub p: Option<String>,
    #[serde(rename = "r")]
    pub n_r: Option<String>,
    pub id: Option<String>,
    pub q: Option<String>,
    #[serde(rename = "$text")]
    pub text: Option<String>,
}

#[derive(Serialize, Deserialize)]
pub struct CC {
    pub p: Option<String>,
    pub id: Option<String>,
    #[serde(rename = "r")]
    pub n_r: Option<String>,
    #[serde(rename = "type")]
    pub c_type: Option<String>,
    pub q: Option<String>,
    #[serde(rename = "$text")]
    pub text: Option<String>,
}

pub fn de(doc: &str) -> Result<(), String> { serde_xml_rs::from_str::<C>(doc).map(|_| ()).map_err(|e| e.to_string()) }
}
// variant b: every struct additionally denies unknown fields
pub mod b {
use serde::{Deserialize, Serialize};

#[derive(Serialize, Deserialize)]
#[serde(deny_unknown_fields)]
pub struct C {
    pub p: Option<String>,
    #[serde(rename = "r")]
    pub n_r: Option<String>,
    pub id: Option<String>,
    pub q: Option<String>,
    pub name: Option<Vec<Name>>,
    pub c: Vec<CC>,
}

#[derive(Serialize, Deserialize)]
#[serde(deny_unknown_fields)]
pub struct Name {
    pub p: Option<String>,
    #[serde(rename = "r")]
    pub n_r: Option<String>,
    pub id: Option<String>,
    pub q: Option<String>,
    #[serde(rename = "$text")]
    pub text: Option<String>,
}

#[derive(Serialize, Deserialize)]
#[serde(deny_unknown_fields)]
pub struct CC {
    pub p: Option<String>,
    pub id: Option<String>,
    #[serde(rename = "r")]
    pub n_r: Option<String>,
    #[serde(rename = "type")]
    pub c_type: Option<String>,
    pub q: Option<String>,
    #[serde(rename = "$text")]
    pub text: Option<String>,
}

pub fn de(doc: &str) -> Result<(), String> { serde_xml_rs::from_str::<C>(doc).map(|_| ()).map_err(|e| e.to_string()) }
}
// variant c: rendered with Debug in the derive string, to inspect the value
pub mod c {
use serde::{Deserialize, Serialize};

#[derive(Serialize, Deserialize, Debug)]
pub struct C {
    pub p: Option<String>,
    #[serde(rename = "r")]
    pub n_r: Option<String>,
    pub id: Option<String>,
    pub q: Option<String>,
    pub name: Option<Vec<Name>>,
    pub c: Vec<CC>,
}

#[derive(Serialize, Deserialize, Debug)]
pub struct Name {
    pub p: Option<String>,
    #[serde(rename = "r")]
    pub n_r: Option<String>,
    pub id: Option<String>,
    pub q: Option<String>,
    #[serde(rename = "$text")]
    pub text: Option<String>,
}

#[derive(Serialize, Deserialize, Debug)]
pub struct CC {
    pub p: Option<String>,
    pub id: Option<String>,
    #[serde(rename = "r")]
    pub n_r: Option<String>,
    #[serde(rename = "type")]
    pub c_type: Option<String>,
    pub q: Option<String>,
    #[serde(rename = "$text")]
    pub text: Option<String>,
}

pub fn de(doc: &str) -> Result<String, String> { serde_xml_rs::from_str::<C>(doc).map(|v| format!("{:?}", v)).map_err(|e| e.to_string()) }
}
pub const DOCS: &[&str] = &[
    "<c p=\"v001\" n:r=\"v002\"><name p=\"v003\"></name><name n:r=\"v004\"><![CDATA[c005]]></name><name id=\"v006\" q=\"v007\" p=\"v008\">t009 &amp; moret010</name><?target?><c p=\"v011\" id=\"v012\" n:r=\"v013\">t014</c></c>",
    "<c id=\"v001\" q=\"v002\"><!--x--><!--y--><c type=\"v003\" n:r=\"v004\">t005 &amp; more</c><?pi some data?><c p=\"v006\">t007 &amp; moret008</c><c q=\"v009\"><![CDATA[c010]]>t011 &amp; more</c><c/></c>",
];
pub const VALUES: &[&[(&str, &str)]] = &[
    &[("attr", "v001"), ("attr", "v002"), ("attr", "v003"), ("attr", "v004"), ("text", "c005"), ("attr", "v006"), ("attr", "v007"), ("attr", "v008"), ("text", "t009 & moret010"), ("attr", "v011"), ("attr", "v012"), ("attr", "v013"), ("text", "t014"), ],
    &[("attr", "v001"), ("attr", "v002"), ("attr", "v003"), ("attr", "v004"), ("text", "t005 & more"), ("attr", "v006"), ("text", "t007 & moret008"), ("attr", "v009"), ("text", "c010"), ("text", "t011 & more"), ],
];
pub fn run() { crate::report(31, DOCS, VALUES, a::de, b::de, c::de); }
