#![allow(dead_code, non_snake_case, non_camel_case_types, unused_imports)]
// variant a: the rendered source unchanged
pub mod a {
use serde::{Deserialize, Serialize};

#[derive(Serialize, Deserialize)]
pub struct AB {
    #[serde(rename = "type")]
    pub a_b_type: Option<String>,
    #[serde(rename = "x-y")]
    pub x_y: Option<String>,
    pub p: Option<String>,
    #[serde(rename = "a-b")]
    pub a_b: Option<ABAB>,
    #[serde(rename = "Foo")]
    pub foo: Option<Foo>,
    #[serde(rename = "Total")]
    pub total: Option<Total>,
    #[serde(rename = "match")]
    pub a_b_match: Option<Vec<Match>>,
}

#[derive(Serialize, Deserialize)]
pub struct ABAB {
    pub p: String,
    pub q: String,
    pub id: String,
    #[serde(rename = "x-y")]
    pub x_y: String,
    #[serde(rename = "$text")]
    pub text: Option<String>,
}

#[derive(Serialize, Deserialize)]
pub struct Foo {
    #[serde(rename = "x-y")]
    pub x_y: String,
    pub p: String,
    #[serde(rename = "$text")]
    pub text: Option<String>,
}

#[derive(Serialize, Deserialize)]
pub struct Total {
    #[serde(rename = "r")]
    pub n_r: String,
    pub id: String,
    #[serde(rename = "x-y")]
    pub x_y: String,
    #[serde(rename = "type")]
    pub total_type: String,
    pub q: String,
}

#[derive(Serialize, Deserialize)]
pub struct Match {
    pub q: Option<String>,
    #[serde(rename = "x-y")]
    pub x_y: Option<String>,
    #[serde(rename = "type")]
    pub match_type: Option<String>,
    pub p: Option<String>,
    pub id: Option<String>,
    #[serde(rename = "r")]
    pub n_r: Option<String>,
    #[serde(rename = "$text")]
    pub text: Option<String>,
}

pub fn de(doc: &str) -> Result<(), String> { serde_xml_rs::from_str::<AB>(doc).map(|_| ()).map_err(|e| e.to_string()) }
}
// variant b: every struct additionally denies unknown fields
pub mod b {
use serde::{Deserialize, Serialize};

#[derive(Serialize, Deserialize)]
#[serde(deny_unknown_fields)]
pub struct AB {
    #[serde(rename = "type")]
    pub a_b_type: Option<String>,
    #[serde(rename = "x-y")]
    pub x_y: Option<String>,
    pub p: Option<String>,
    #[serde(rename = "a-b")]
    pub a_b: Option<ABAB>,
    #[serde(rename = "Foo")]
    pub foo: Option<Foo>,
    #[serde(rename = "Total")]
    pub total: Option<Total>,
    #[serde(rename = "match")]
    pub a_b_match: Option<Vec<Match>>,
}

#[derive(Serialize, Deserialize)]
#[serde(deny_unknown_fields)]
pub struct ABAB {
    pub p: String,
    pub q: String,
    pub id: String,
    #[serde(rename = "x-y")]
    pub x_y: String,
    #[serde(rename = "$text")]
    pub text: Option<String>,
}

#[derive(Serialize, Deserialize)]
#[serde(deny_unknown_fields)]
pub struct Foo {
    #[serde(rename = "x-y")]
    pub x_y: String,
    pub p: String,
    #[serde(rename = "$text")]
    pub text: Option<String>,
}

#[derive(Serialize, Deserialize)]
#[serde(deny_unknown_fields)]
pub struct Total {
    #[serde(rename = "r")]
    pub n_r: String,
    pub id: String,
    #[serde(rename = "x-y")]
    pub x_y: String,
    #[serde(rename = "type")]
    pub total_type: String,
    pub q: String,
}

#[derive(Serialize, Deserialize)]
#[serde(deny_unknown_fields)]
pub struct Match {
    pub q: Option<String>,
    #[serde(rename = "x-y")]
    pub x_y: Option<String>,
    #[serde(rename = "type")]
    pub match_type: Option<String>,
    pub p: Option<String>,
    pub id: Option<String>,
    #[serde(rename = "r")]
    pub n_r: Option<String>,
    #[serde(rename = "$text")]
    pub text: Option<String>,
}

pub fn de(doc: &str) -> Result<(), String> { serde_xml_rs::from_str::<AB>(doc).map(|_| ()).map_err(|e| e.to_string()) }
}
// variant c: rendered with Debug in the derive string, to inspect the value
pub mod c {
use serde::{Deserialize, Serialize};

#[derive(Serialize, Deserialize, Debug)]
pub struct AB {
    #[serde(rename = "type")]
    pub a_b_type: Option<String>,
    #[serde(rename = "x-y")]
    pub x_y: Option<String>,
    pub p: Option<String>,
    #[serde(rename = "a-b")]
    pub a_b: Option<ABAB>,
    #[serde(rename = "Foo")]
    pub foo: Option<Foo>,
    #[serde(rename = "Total")]
    pub total: Option<Total>,
    #[serde(rename = "match")]
    pub a_b_match: Option<Vec<Match>>,
}

#[derive(Serialize, Deserialize, Debug)]
pub struct ABAB {
    pub p: String,
    pub q: String,
    pub id: String,
    #[serde(rename = "x-y")]
    pub x_y: String,
    #[serde(rename = "$text")]
    pub text: Option<String>,
}

#[derive(Serialize, Deserialize, Debug)]
pub struct Foo {
    #[serde(rename = "x-y")]
    pub x_y: String,
    pub p: String,
    #[serde(rename = "$text")]
    pub text: Option<String>,
}

#[derive(Serialize, Deserialize, Debug)]
pub struct Total {
    #[serde(rename = "r")]
    pub n_r: String,
    pub id: String,
    #[serde(rename = "x-y")]
    pub x_y: String,
    #[serde(rename = "type")]
    pub total_type: String,
    pub q: String,
}

#[derive(Serialize, Deserialize, Debug)]
pub struct Match {
    pub q: Option<String>,
    #[serde(rename = "x-y")]
    pub x_y: Option<String>,
    #[serde(rename = "type")]
    pub match_type: Option<String>,
    pub p: Option<String>,
    pub id: Option<String>,
    #[serde(rename = "r")]
    pub n_r: Option<String>,
    #[serde(rename = "$text")]
    pub text: Option<String>,
}

pub fn de(doc: &str) -> Result<String, String> { serde_xml_rs::from_str::<AB>(doc).map(|v| format!("{:?}", v)).map_err(|e| e.to_string()) }
}
pub const DOCS: &[&str] = &[
    "<a-b type=\"v001\" x-y=\"v002\" p=\"v003\"><a-b p=\"v004\" q=\"v005\" id=\"v006\" x-y=\"v007\"><![CDATA[c008]]></a-b><Foo x-y=\"v009\" p=\"v010\">t011 &amp; more</Foo><Total n:r=\"v012\" id=\"v013\" x-y=\"v014\" type=\"v015\" q=\"v016\"/></a-b>",
    "<?xml version=\"1.0\" encoding=\"UTF-8\"?><a-b x-y=\"v001\"><match q=\"v002\" x-y=\"v003\" type=\"v004\"/></a-b>",
    "<?xml version=\"1.0\" encoding=\"UTF-8\"?><!DOCTYPE a-b><!--x--><!--y--><a-b><match p=\"v001\">t002</match><match p=\"v003\" id=\"v004\"></match><match x-y=\"v005\" n:r=\"v006\" q=\"v007\">t008 &amp; more</match></a-b>",
];
pub const VALUES: &[&[(&str, &str)]] = &[
    &[("attr", "v001"), ("attr", "v002"), ("attr", "v003"), ("attr", "v004"), ("attr", "v005"), ("attr", "v006"), ("attr", "v007"), ("text", "c008"), ("attr", "v009"), ("attr", "v010"), ("text", "t011 & more"), ("attr", "v012"), ("attr", "v013"), ("attr", "v014"), ("attr", "v015"), ("attr", "v016"), ],
    &[("attr", "v001"), ("attr", "v002"), ("attr", "v003"), ("attr", "v004"), ],
    &[("attr", "v001"), ("text", "t002"), ("attr", "v003"), ("attr", "v004"), ("attr", "v005"), ("attr", "v006"), ("attr", "v007"), ("text", "t008 & more"), ],
];
pub fn run() { crate::report(64, DOCS, VALUES, a::de, b::de, c::de); }
