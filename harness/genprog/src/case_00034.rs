#![allow(dead_code, non_snake_case, non_camel_case_types, unused_imports)]
// variant a: the rendered source unchanged
pub mod a {
use serde::{Deserialize, Serialize};

#[derive(Serialize, Deserialize)]
pub struct Text {
    #[serde(rename = "type")]
    pub text_type: String,
    pub id: String,
    pub p: String,
    pub é: É,
    #[serde(rename = "match")]
    pub text_match: Match,
}

#[derive(Serialize, Deserialize)]
pub struct É {
    pub q: String,
    #[serde(rename = "r")]
    pub n_r: String,
    pub p: String,
    pub text: TextÉText,
}

#[derive(Serialize, Deserialize)]
pub struct TextÉText {
    #[serde(rename = "type")]
    pub text_type: String,
    pub p: String,
    #[serde(rename = "$text")]
    pub text: Option<String>,
}

#[derive(Serialize, Deserialize)]
pub struct Match {
    #[serde(rename = "Price")]
    pub price: Price,
}

#[derive(Serialize, Deserialize)]
pub struct Price {
    pub p: String,
    #[serde(rename = "$text")]
    pub text: Option<String>,
}

pub fn de(doc: &str) -> Result<(), String> { serde_xml_rs::from_str::<Text>(doc).map(|_| ()).map_err(|e| e.to_string()) }
}
// variant b: every struct additionally denies unknown fields
pub mod b {
use serde::{Deserialize, Serialize};

#[derive(Serialize, Deserialize)]
#[serde(deny_unknown_fields)]
pub struct Text {
    #[serde(rename = "type")]
    pub text_type: String,
    pub id: String,
    pub p: String,
    pub é: É,
    #[serde(rename = "match")]
    pub text_match: Match,
}

#[derive(Serialize, Deserialize)]
#[serde(deny_unknown_fields)]
pub struct É {
    pub q: String,
    #[serde(rename = "r")]
    pub n_r: String,
    pub p: String,
    pub text: TextÉText,
}

#[derive(Serialize, Deserialize)]
#[serde(deny_unknown_fields)]
pub struct TextÉText {
    #[serde(rename = "type")]
    pub text_type: String,
    pub p: String,
    #[serde(rename = "$text")]
    pub text: Option<String>,
}

#[derive(Serialize, Deserialize)]
#[serde(deny_unknown_fields)]
pub struct Match {
    #[serde(rename = "Price")]
    pub price: Price,
}

#[derive(Serialize, Deserialize)]
#[serde(deny_unknown_fields)]
pub struct Price {
    pub p: String,
    #[serde(rename = "$text")]
    pub text: Option<String>,
}

pub fn de(doc: &str) -> Result<(), String> { serde_xml_rs::from_str::<Text>(doc).map(|_| ()).map_err(|e| e.to_string()) }
}
// variant c: rendered with Debug in the derive string, to inspect the value
pub mod c {
use serde::{Deserialize, Serialize};

#[derive(Serialize, Deserialize, Debug)]
pub struct Text {
    #[serde(rename = "type")]
    pub text_type: String,
    pub id: String,
    pub p: String,
    pub é: É,
    #[serde(rename = "match")]
    pub text_match: Match,
}

#[derive(Serialize, Deserialize, Debug)]
pub struct É {
    pub q: String,
    #[serde(rename = "r")]
    pub n_r: String,
    pub p: String,
    pub text: TextÉText,
}

#[derive(Serialize, Deserialize, Debug)]
pub struct TextÉText {
    #[serde(rename = "type")]
    pub text_type: String,
    pub p: String,
    #[serde(rename = "$text")]
    pub text: Option<String>,
}

#[derive(Serialize, Deserialize, Debug)]
pub struct Match {
    #[serde(rename = "Price")]
    pub price: Price,
}

#[derive(Serialize, Deserialize, Debug)]
pub struct Price {
    pub p: String,
    #[serde(rename = "$text")]
    pub text: Option<String>,
}

pub fn de(doc: &str) -> Result<String, String> { serde_xml_rs::from_str::<Text>(doc).map(|v| format!("{:?}", v)).map_err(|e| e.to_string()) }
}
pub const DOCS: &[&str] = &[
    "<?xml version=\"1.0\" encoding=\"UTF-8\"?><text type=\"v001\" id=\"v002\" p=\"v003\"><é q=\"v004\" n:r=\"v005\" p=\"v006\"><text type=\"v007\" p=\"v008\">t009</text></é><match><!--x--><!--y--><Price p=\"v010\">t011 &amp; moret012</Price></match></text>",
];
pub const VALUES: &[&[(&str, &str)]] = &[
    &[("attr", "v001"), ("attr", "v002"), ("attr", "v003"), ("attr", "v004"), ("attr", "v005"), ("attr", "v006"), ("attr", "v007"), ("attr", "v008"), ("text", "t009"), ("attr", "v010"), ("text", "t011 & moret012"), ],
];
pub fn run() { crate::report(34, DOCS, VALUES, a::de, b::de, c::de); }
