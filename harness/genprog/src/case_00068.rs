#![allow(dead_code, non_snake_case, non_camel_case_types, unused_imports)]
// variant a: the rendered source unchanged
pub mod a {
use serde::{Deserialize, Serialize};

#[derive(Serialize, Deserialize)]
pub struct Price {
    pub q: Option<String>,
    pub p: Option<String>,
    #[serde(rename = "type")]
    pub price_type: Option<String>,
    #[serde(rename = "match")]
    pub price_match: Option<PriceMatch>,
}

#[derive(Serialize, Deserialize)]
pub struct PriceMatch {
    pub id: String,
    pub q: String,
    #[serde(rename = "x-y")]
    pub x_y: String,
    #[serde(rename = "match")]
    pub match_match: Vec<MatchMatch>,
}

#[derive(Serialize, Deserialize)]
pub struct MatchMatch {
    #[serde(rename = "type")]
    pub match_type: Option<String>,
    pub p: Option<String>,
    #[serde(rename = "$text")]
    pub text: Option<String>,
    #[serde(rename = "Price")]
    pub price: Option<PriceMatchMatchPrice>,
}

#[derive(Serialize, Deserialize)]
pub struct PriceMatchMatchPrice {
    pub id: String,
    #[serde(rename = "r")]
    pub n_r: String,
    #[serde(rename = "x-y")]
    pub x_y: String,
    pub q: String,
    pub p: String,
    #[serde(rename = "$text")]
    pub text: Option<String>,
}

pub fn de(doc: &str) -> Result<(), String> { serde_xml_rs::from_str::<Price>(doc).map(|_| ()).map_err(|e| e.to_string()) }
}
// variant b: every struct additionally denies unknown fields
pub mod b {
use serde::{Deserialize, Serialize};

#[derive(Serialize, Deserialize)]
#[serde(deny_unknown_fields)]
pub struct Price {
    pub q: Option<String>,
    pub p: Option<String>,
    #[serde(rename = "type")]
    pub price_type: Option<String>,
    #[serde(rename = "match")]
    pub price_match: Option<PriceMatch>,
}

#[derive(Serialize, Deserialize)]
#[serde(deny_unknown_fields)]
pub struct PriceMatch {
    pub id: String,
    pub q: String,
    #[serde(rename = "x-y")]
    pub x_y: String,
    #[serde(rename = "match")]
    pub match_match: Vec<MatchMatch>,
}

#[derive(Serialize, Deserialize)]
#[serde(deny_unknown_fields)]
pub struct MatchMatch {
    #[serde(rename = "type")]
    pub match_type: Option<String>,
    pub p: Option<String>,
    #[serde(rename = "$text")]
    pub text: Option<String>,
    #[serde(rename = "Price")]
    pub price: Option<PriceMatchMatchPrice>,
}

#[derive(Serialize, Deserialize)]
#[serde(deny_unknown_fields)]
pub struct PriceMatchMatchPrice {
    pub id: String,
    #[serde(rename = "r")]
    pub n_r: String,
    #[serde(rename = "x-y")]
    pub x_y: String,
    pub q: String,
    pub p: String,
    #[serde(rename = "$text")]
    pub text: Option<String>,
}

pub fn de(doc: &str) -> Result<(), String> { serde_xml_rs::from_str::<Price>(doc).map(|_| ()).map_err(|e| e.to_string()) }
}
// variant c: rendered with Debug in the derive string, to inspect the value
pub mod c {
use serde::{Deserialize, Serialize};

#[derive(Serialize, Deserialize, Debug)]
pub struct Price {
    pub q: Option<String>,
    pub p: Option<String>,
    #[serde(rename = "type")]
    pub price_type: Option<String>,
    #[serde(rename = "match")]
    pub price_match: Option<PriceMatch>,
}

#[derive(Serialize, Deserialize, Debug)]
pub struct PriceMatch {
    pub id: String,
    pub q: String,
    #[serde(rename = "x-y")]
    pub x_y: String,
    #[serde(rename = "match")]
    pub match_match: Vec<MatchMatch>,
}

#[derive(Serialize, Deserialize, Debug)]
pub struct MatchMatch {
    #[serde(rename = "type")]
    pub match_type: Option<String>,
    pub p: Option<String>,
    #[serde(rename = "$text")]
    pub text: Option<String>,
    #[serde(rename = "Price")]
    pub price: Option<PriceMatchMatchPrice>,
}

#[derive(Serialize, Deserialize, Debug)]
pub struct PriceMatchMatchPrice {
    pub id: String,
    #[serde(rename = "r")]
    pub n_r: String,
    #[serde(rename = "x-y")]
    pub x_y: String,
    pub q: String,
    pub p: String,
    #[serde(rename = "$text")]
    pub text: Option<String>,
}

pub fn de(doc: &str) -> Result<String, String> { serde_xml_rs::from_str::<Price>(doc).map(|v| format!("{:?}", v)).map_err(|e| e.to_string()) }
}
pub const DOCS: &[&str] = &[
    "<?xml version=\"1.0\" encoding=\"UTF-8\"?><Price q=\"v001\" p=\"v002\"/>",
    "<Price type=\"v001\"><match id=\"v002\" q=\"v003\" x-y=\"v004\"><match type=\"v005\" p=\"v006\"><Price id=\"v007\" n:r=\"v008\" x-y=\"v009\" q=\"v010\" p=\"v011\">t012</Price></match><match>t013</match></match></Price>",
];
pub const VALUES: &[&[(&str, &str)]] = &[
    &[("attr", "v001"), ("attr", "v002"), ],
    &[("attr", "v001"), ("attr", "v002"), ("attr", "v003"), ("attr", "v004"), ("attr", "v005"), ("attr", "v006"), ("attr", "v007"), ("attr", "v008"), ("attr", "v009"), ("attr", "v010"), ("attr", "v011"), ("text", "t012"), ("text", "t013"), ],
];
pub fn run() { crate::report(68, DOCS, VALUES, a::de, b::de, c::de); }
