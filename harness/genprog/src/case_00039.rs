#![allow(dead_code, non_snake_case, non_camel_case_types, unused_imports)]
// variant a: the rendered source unchanged
pub mod a {
use serde::{Deserialize, Serialize};

#[derive(Serialize, Deserialize)]
pub struct C {
    pub q: Option<String>,
    #[serde(rename = "type")]
    pub c_type: String,
    #[serde(rename = "$text")]
    pub text: Option<String>,
    pub d: Option<CD>,
}

#[derive(Serialize, Deserialize)]
pub struct CD {
    #[serde(rename = "type")]
    pub d_type: String,
    #[serde(rename = "$text")]
    pub text: Option<String>,
    pub b: Vec<DB>,
}

#[derive(Serialize, Deserialize)]
pub struct DB {
    pub id: Option<String>,
    #[serde(rename = "r")]
    pub n_r: Option<String>,
    #[serde(rename = "$text")]
    pub text: Option<String>,
    pub b: Option<BB>,
    pub name: Option<Name>,
    pub d: Option<BD>,
}

#[derive(Serialize, Deserialize)]
pub struct BB {
    pub id: String,
    pub p: String,
    #[serde(rename = "r")]
    pub n_r: String,
}

#[derive(Serialize, Deserialize)]
pub struct Name {
    pub id: String,
    pub p: String,
    #[serde(rename = "r")]
    pub n_r: String,
    #[serde(rename = "type")]
    pub name_type: String,
}

#[derive(Serialize, Deserialize)]
pub struct BD {
    #[serde(rename = "r")]
    pub n_r: Option<String>,
    pub id: Option<String>,
    pub q: String,
    #[serde(rename = "$text")]
    pub text: Option<String>,
}

pub fn de(doc: &str) -> Result<(), String> { serde_xml_rs::from_str::<C>(doc).map(|_| ()).map_err(|e| e.to_string()) }
}
// variant b: every struct additionally denies unknown fields
pub mod b {
use serde::{Deserialize, Serialize};

#[derive(Serialize, Deserialize)]
#[serde(deny_unknown_fields)]
pub struct C {
    pub q: Option<String>,
    #[serde(rename = "type")]
    pub c_type: String,
    #[serde(rename = "$text")]
    pub text: Option<String>,
    pub d: Option<CD>,
}

#[derive(Serialize, Deserialize)]
#[serde(deny_unknown_fields)]
pub struct CD {
    #[serde(rename = "type")]
    pub d_type: String,
    #[serde(rename = "$text")]
    pub text: Option<String>,
    pub b: Vec<DB>,
}

#[derive(Serialize, Deserialize)]
#[serde(deny_unknown_fields)]
pub struct DB {
    pub id: Option<String>,
    #[serde(rename = "r")]
    pub n_r: Option<String>,
    #[serde(rename = "$text")]
    pub text: Option<String>,
    pub b: Option<BB>,
    pub name: Option<Name>,
    pub d: Option<BD>,
}

#[derive(Serialize, Deserialize)]
#[serde(deny_unknown_fields)]
pub struct BB {
    pub id: String,
    pub p: String,
    #[serde(rename = "r")]
    pub n_r: String,
}

#[derive(Serialize, Deserialize)]
#[serde(deny_unknown_fields)]
pub struct Name {
    pub id: String,
    pub p: String,
    #[serde(rename = "r")]
    pub n_r: String,
    #[serde(rename = "type")]
    pub name_type: String,
}

#[derive(Serialize, Deserialize)]
#[serde(deny_unknown_fields)]
pub struct BD {
    #[serde(rename = "r")]
    pub n_r: Option<String>,
    pub id: Option<String>,
    pub q: String,
    #[serde(rename = "$text")]
    pub text: Option<String>,
}

pub fn de(doc: &str) -> Result<(), String> { serde_xml_rs::from_str::<C>(doc).map(|_| ()).map_err(|e| e.to_string()) }
}
// variant c: rendered with Debug in the derive string, to inspect the value
pub mod c {
use serde::{Deserialize, Serialize};

#[derive(Serialize, Deserialize, Debug)]
pub struct C {
    pub q: Option<String>,
    #[serde(rename = "type")]
    pub c_type: String,
    #[serde(rename = "$text")]
    pub text: Option<String>,
    pub d: Option<CD>,
}

#[derive(Serialize, Deserialize, Debug)]
pub struct CD {
    #[serde(rename = "type")]
    pub d_type: String,
    #[serde(rename = "$text")]
    pub text: Option<String>,
    pub b: Vec<DB>,
}

#[derive(Serialize, Deserialize, Debug)]
pub struct DB {
    pub id: Option<String>,
    #[serde(rename = "r")]
    pub n_r: Option<String>,
    #[serde(rename = "$text")]
    pub text: Option<String>,
    pub b: Option<BB>,
    pub name: Option<Name>,
    pub d: Option<BD>,
}

#[derive(Serialize, Deserialize, Debug)]
pub struct BB {
    pub id: String,
    pub p: String,
    #[serde(rename = "r")]
    pub n_r: String,
}

#[derive(Serialize, Deserialize, Debug)]
pub struct Name {
    pub id: String,
    pub p: String,
    #[serde(rename = "r")]
    pub n_r: String,
    #[serde(rename = "type")]
    pub name_type: String,
}

#[derive(Serialize, Deserialize, Debug)]
pub struct BD {
    #[serde(rename = "r")]
    pub n_r: Option<String>,
    pub id: Option<String>,
    pub q: String,
    #[serde(rename = "$text")]
    pub text: Option<String>,
}

pub fn de(doc: &str) -> Result<String, String> { serde_xml_rs::from_str::<C>(doc).map(|v| format!("{:?}", v)).map_err(|e| e.to_string()) }
}
pub const DOCS: &[&str] = &[
    "<c q=\"v001\" type=\"v002\"></c><?pi some data?>\n",
    "<c type=\"v001\">\n    <d type=\"v002\">\n      <b id=\"v003\">\n        <b id=\"v004\" p=\"v005\" n:r=\"v006\"/>\n        <name id=\"v007\" p=\"v008\" n:r=\"v009\" type=\"v010\"/>\n      </b>\n      <b n:r=\"v011\">\n        <d n:r=\"v012\" id=\"v013\" q=\"v014\">t015</d>\n      </b>\n      <b id=\"v016\">\n        <d q=\"v017\"></d>\n      </b>\n    </d>\n  </c>\n",
];
pub const VALUES: &[&[(&str, &str)]] = &[
    &[("attr", "v001"), ("attr", "v002"), ],
    &[("attr", "v001"), ("attr", "v002"), ("attr", "v003"), ("attr", "v004"), ("attr", "v005"), ("attr", "v006"), ("attr", "v007"), ("attr", "v008"), ("attr", "v009"), ("attr", "v010"), ("attr", "v011"), ("attr", "v012"), ("attr", "v013"), ("attr", "v014"), ("text", "t015"), ("attr", "v016"), ("attr", "v017"), ],
];
pub fn run() { crate::report(39, DOCS, VALUES, a::de, b::de, c::de); }
