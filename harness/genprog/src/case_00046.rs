#![allow(dead_code, non_snake_case, non_camel_case_types, unused_imports)]
// variant a: the rendered source unchanged
pub mod a {
use serde::{Deserialize, Serialize};

#[derive(Serialize, Deserialize)]
pub struct Item {
    pub q: Option<String>,
    #[serde(rename = "x-y")]
    pub x_y: Option<String>,
    #[serde(rename = "type")]
    pub item_type: Option<String>,
    pub id: Option<String>,
    #[serde(rename = "$text")]
    pub text: Option<String>,
    #[serde(rename = "match")]
    pub item_match: Option<ItemMatch>,
    pub крипта: Option<ItemКрипта>,
}

#[derive(Serialize, Deserialize)]
pub struct ItemMatch {
    #[serde(rename = "r")]
    pub n_r: String,
    pub q: String,
    pub id: String,
    #[serde(rename = "type")]
    pub match_type: String,
    #[serde(rename = "match")]
    pub match_match: MatchMatch,
}

#[derive(Serialize, Deserialize)]
pub struct MatchMatch {
    pub id: String,
    #[serde(rename = "type")]
    pub match_type: String,
}

#[derive(Serialize, Deserialize)]
pub struct ItemКрипта {
    pub q: String,
    #[serde(rename = "x-y")]
    pub x_y: String,
    pub крипта: КриптаКрипта,
}

#[derive(Serialize, Deserialize)]
pub struct КриптаКрипта {
    pub id: String,
    #[serde(rename = "type")]
    pub крипта_type: String,
    #[serde(rename = "x-y")]
    pub x_y: String,
    #[serde(rename = "$text")]
    pub text: Option<String>,
}

pub fn de(doc: &str) -> Result<(), String> { serde_xml_rs::from_str::<Item>(doc).map(|_| ()).map_err(|e| e.to_string()) }
}
// variant b: every struct additionally denies unknown fields
pub mod b {
use serde::{Deserialize, Serialize};

#[derive(Serialize, Deserialize)]
#[serde(deny_unknown_fields)]
pub struct Item {
    pub q: Option<String>,
    #[serde(rename = "x-y")]
    pub x_y: Option<String>,
    #[serde(rename = "type")]
    pub item_type: Option<String>,
    pub id: Option<String>,
    #[serde(rename = "$text")]
    pub text: Option<String>,
    #[serde(rename = "match")]
    pub item_match: Option<ItemMatch>,
    pub крипта: Option<ItemКрипта>,
}

#[derive(Serialize, Deserialize)]
#[serde(deny_unknown_fields)]
pub struct ItemMatch {
    #[serde(rename = "r")]
    pub n_r: String,
    pub q: String,
    pub id: String,
    #[serde(rename = "type")]
    pub match_type: String,
    #[serde(rename = "match")]
    pub match_match: MatchMatch,
}

#[derive(Serialize, Deserialize)]
#[serde(deny_unknown_fields)]
pub struct MatchMatch {
    pub id: String,
    #[serde(rename = "type")]
    pub match_type: String,
}

#[derive(Serialize, Deserialize)]
#[serde(deny_unknown_fields)]
pub struct ItemКрипта {
    pub q: String,
    #[serde(rename = "x-y")]
    pub x_y: String,
    pub крипта: КриптаКрипта,
}

#[derive(Serialize, Deserialize)]
#[serde(deny_unknown_fields)]
pub struct КриптаКрипта {
    pub id: String,
    #[serde(rename = "type")]
    pub крипта_type: String,
    #[serde(rename = "x-y")]
    pub x_y: String,
    #[serde(rename = "$text")]
    pub text: Option<String>,
}

pub fn de(doc: &str) -> Result<(), String> { serde_xml_rs::from_str::<Item>(doc).map(|_| ()).map_err(|e| e.to_string()) }
}
// variant c: rendered with Debug in the derive string, to inspect the value
pub mod c {
use serde::{Deserialize, Serialize};

#[derive(Serialize, Deserialize, Debug)]
pub struct Item {
    pub q: Option<String>,
    #[serde(rename = "x-y")]
    pub x_y: Option<String>,
    #[serde(rename = "type")]
    pub item_type: Option<String>,
    pub id: Option<String>,
    #[serde(rename = "$text")]
    pub text: Option<String>,
    #[serde(rename = "match")]
    pub item_match: Option<ItemMatch>,
    pub крипта: Option<ItemКрипта>,
}

#[derive(Serialize, Deserialize, Debug)]
pub struct ItemMatch {
    #[serde(rename = "r")]
    pub n_r: String,
    pub q: String,
    pub id: String,
    #[serde(rename = "type")]
    pub match_type: String,
    #[serde(rename = "match")]
    pub match_match: MatchMatch,
}

#[derive(Serialize, Deserialize, Debug)]
pub struct MatchMatch {
    pub id: String,
    #[serde(rename = "type")]
    pub match_type: String,
}

#[derive(Serialize, Deserialize, Debug)]
pub struct ItemКрипта {
    pub q: String,
    #[serde(rename = "x-y")]
    pub x_y: String,
    pub крипта: КриптаКрипта,
}

#[derive(Serialize, Deserialize, Debug)]
pub struct КриптаКрипта {
    pub id: String,
    #[serde(rename = "type")]
    pub крипта_type: String,
    #[serde(rename = "x-y")]
    pub x_y: String,
    #[serde(rename = "$text")]
    pub text: Option<String>,
}

pub fn de(doc: &str) -> Result<String, String> { serde_xml_rs::from_str::<Item>(doc).map(|v| format!("{:?}", v)).map_err(|e| e.to_string()) }
}
pub const DOCS: &[&str] = &[
    "<Item q=\"v001\"><match n:r=\"v002\" q=\"v003\" id=\"v004\" type=\"v005\"><match id=\"v006\" type=\"v007\"></match></match></Item>",
    "<!DOCTYPE Item><!--x--><!--y--><Item x-y=\"v001\" type=\"v002\"><крипта q=\"v003\" x-y=\"v004\"><крипта id=\"v005\" type=\"v006\" x-y=\"v007\">t008</крипта></крипта></Item>",
    "<!--x--><!--y--><Item id=\"v001\" x-y=\"v002\">t003 &amp; more</Item>",
];
pub const VALUES: &[&[(&str, &str)]] = &[
    &[("attr", "v001"), ("attr", "v002"), ("attr", "v003"), ("attr", "v004"), ("attr", "v005"), ("attr", "v006"), ("attr", "v007"), ],
    &[("attr", "v001"), ("attr", "v002"), ("attr", "v003"), ("attr", "v004"), ("attr", "v005"), ("attr", "v006"), ("attr", "v007"), ("text", "t008"), ],
    &[("attr", "v001"), ("attr", "v002"), ("text", "t003 & more"), ],
];
pub fn run() { crate::report(46, DOCS, VALUES, a::de, b::de, c::de); }
