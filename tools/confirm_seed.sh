#!/bin/sh
# usage: confirm_seed.sh <worktree> <example-name>
# confirms in the scratch worktree, from _out/patch.diff alone: tests pass with the change, the demo fails with it and
# passes without it (git stash is shared between worktrees, so the patch is applied / reversed explicitly)
W="$1"; EX="$2"
cd "$W" || exit 2
git checkout -q -- src
git apply _out/patch.diff || { echo "patch.diff does not apply to HEAD"; exit 2; }
cp _out/demo.rs examples/$EX.rs 2>/dev/null
echo "-- tests with change:"; cargo test --offline 2>&1 | grep -E "^test result" | head -3
cargo build --offline -q 2>/dev/null
echo "-- demo with change:"; cargo run --offline --quiet --example "$EX" >/dev/null 2>&1; echo "exit=$?"
git apply -R _out/patch.diff
cargo build --offline -q 2>/dev/null
echo "-- demo without change:"; cargo run --offline --quiet --example "$EX" >/dev/null 2>&1; echo "exit=$?"
git apply _out/patch.diff
git status --short | head -5
