#!/bin/sh
# usage: confirm_seed.sh <worktree> <example-name>
# confirms in the scratch worktree: tests pass with the change, demo fails with it and passes without it
W="$1"; EX="$2"
cd "$W" || exit 2
echo "-- tests with change:"; cargo test --offline 2>&1 | grep -E "^test result" | head -3
echo "-- demo with change:"; cargo run --offline --quiet --example "$EX" >/dev/null 2>&1; echo "exit=$?"
git stash push -q -- src
echo "-- demo without change:"; cargo run --offline --quiet --example "$EX" >/dev/null 2>&1; echo "exit=$?"
git stash pop -q
git status --short | head -5
