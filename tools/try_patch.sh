#!/bin/sh
# usage: try_patch.sh <patch.diff> <check-id>...   applies the patch to /repo, runs the quick checks, restores /repo
set -u
P="$1"; shift
cd /repo || exit 2
git diff --quiet || { echo "/repo is dirty"; exit 2; }
git apply "$P" || { echo "patch does not apply"; exit 2; }
echo "== baseline tests with the patch:"; cargo test --workspace --offline 2>&1 | grep -E "^test result" | head -3
for id in "$@"; do
  echo "== check $id"
  (cd /verif && VERIF_NO_EVIDENCE=1 ./check "$id" --tier quick 2>&1 | cut -c1-420 | head -6; echo "exit=$?")
done
cd /repo && git checkout -- . && git status --short
