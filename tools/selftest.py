#!/usr/bin/env python3
"""Binding self-tests (not a registered property check): shows that each trace specification really constrains
the recorded events — a corrupted field, a dropped hook event or a perturbed expectation must be rejected —
and that no action of the small model instances is dead. Run: python3 tools/selftest.py"""
import copy
import json
import os
import sys

sys.path.insert(0, os.path.dirname(os.path.dirname(os.path.abspath(__file__))))
from checklib import common as c, parser_common as pc  # noqa: E402

FAILED = []


def expect(name, cond, detail=""):
    print(("PASS " if cond else "FAIL ") + name + (" — " + detail if detail else ""))
    if not cond:
        FAILED.append(name)


def rejected_lines(module, events, name, cfg=None, env=None):
    path = os.path.join(c.OUT, "traces", "selftest.%s.ndjson" % name)
    c.write_ndjson(path, events)
    acc, rej, st = c.validate_trace(module, path, "selftest-" + name, cfg=cfg, extra_env=env, max_rejections=1)
    return [r.get("line") for r in rej], acc


def main():
    c.build_harness()
    tr = os.path.join(c.OUT, "traces")
    # --- ParserTrace (mechanism level)
    p = os.path.join(tr, "selftest.hooks.ndjson")
    c.harness(["parser-record", "--seed", 11, "--n", 60, "--out", p])
    ev = c.read_ndjson(p)
    pcfg = c.cfg_text(spec="TSpec", constants=dict(HashOrder=False), invariants=["TypeOK", "Exact", "StackWF"], postcondition="Accepted")
    lines, acc = rejected_lines("ParserTrace", ev, "hooks-ok", pcfg)
    expect("ParserTrace accepts the unmodified hook trace", lines == [], "%d events" % acc)
    e = copy.deepcopy(ev)
    i = next(k for k, x in enumerate(e) if x["ev"] == "Closed" and x["parent"]["ch"] and k > 200)
    e[i]["parent"]["ch"][0]["e"]["cnt"] += 1
    lines, _ = rejected_lines("ParserTrace", e, "hooks-cnt", pcfg)
    expect("ParserTrace rejects a corrupted count", lines == [i + 1], "corrupted line %d, rejected %s" % (i + 1, lines))
    e = copy.deepcopy(ev)
    i = next(k for k, x in enumerate(e) if x["ev"] == "Enter" and k > 300)
    del e[i]
    lines, _ = rejected_lines("ParserTrace", e, "hooks-drop", pcfg)
    expect("ParserTrace rejects a dropped Enter event", bool(lines) and i + 1 <= lines[0] <= i + 8, "dropped line %d, rejected %s" % (i + 1, lines))
    e = copy.deepcopy(ev)
    i = next(k for k, x in enumerate(e) if x["ev"] == "Snap" and x["counts"] and k > 100)
    e[i]["counts"][0][1] += 1
    lines, _ = rejected_lines("ParserTrace", e, "hooks-snap", pcfg)
    expect("ParserTrace rejects a corrupted snapshot", lines == [i + 1], "corrupted line %d, rejected %s" % (i + 1, lines))
    # --- SchemaTrace (property level)
    p = os.path.join(tr, "selftest.schema.ndjson")
    c.harness(["schema-record", "--seed", 5, "--n", 80, "--damage", 20, "--out", p])
    ev = c.read_ndjson(p)
    for mode in ("C03", "C08"):
        lines, acc = rejected_lines("SchemaTrace", ev, "schema-ok-" + mode, env={"MODE": mode})
        expect("SchemaTrace(%s) accepts the unmodified trace" % mode, lines == [], "%d events" % acc)
    e = copy.deepcopy(ev)
    i = next(k for k, x in enumerate(e) if x.get("ev") == "Call" and x["result"]["st"] == "ok" and x["result"]["proj"]["kids"] and k > 20)
    e[i]["result"]["proj"]["kids"][0]["opt"] = not e[i]["result"]["proj"]["kids"][0]["opt"]
    lines, _ = rejected_lines("SchemaTrace", e, "schema-opt", env={"MODE": "C03"})
    expect("SchemaTrace(C03) rejects a flipped Option flag", lines == [i + 1], "line %d, rejected %s" % (i + 1, lines))
    e = copy.deepcopy(ev)
    i = next(k for k, x in enumerate(e) if x.get("ev") == "Call" and x["result"]["st"] == "err" and x["result"]["kind"] == "QuickXml")
    e[i]["result"]["position"] += 1
    lines, _ = rejected_lines("SchemaTrace", e, "schema-pos", env={"MODE": "C08"})
    expect("SchemaTrace(C08) rejects a wrong error position", lines == [i + 1], "line %d, rejected %s" % (i + 1, lines))
    # --- MergeTrace
    p = os.path.join(tr, "selftest.merge.ndjson")
    c.harness(["merge-record", "--seed", 3, "--n", 300, "--out", p])
    ev = c.read_ndjson(p)
    e = copy.deepcopy(ev)
    i = next(k for k, x in enumerate(e) if len(x["result"]) >= 2)
    e[i]["result"][0], e[i]["result"][1] = e[i]["result"][1], e[i]["result"][0]
    lines, _ = rejected_lines("MergeTrace", e, "merge-swap")
    expect("MergeTrace rejects two swapped result items", lines == [i + 1], "line %d, rejected %s" % (i + 1, lines))
    # --- ApiTrace + RenderTrace
    cases = os.path.join(c.OUT, "cases", "selftest.ops.ndjson")
    S = lambda s: list(s)
    c.write_ndjson(cases, [{"ops": [{"op": "new", "name": S("r"), "attrs": [S("p")]}, {"op": "add", "path": [], "name": S("a"), "attrs": []},
                                    {"op": "add", "path": [], "name": S("b"), "attrs": [S("q")]}, {"op": "optional", "path": [], "name": S("a")},
                                    {"op": "text", "path": [S("b")]}]}])
    at = os.path.join(tr, "selftest.api.ndjson")
    rt = os.path.join(tr, "selftest.render.ndjson")
    c.harness(["api-replay", "--cases", cases, "--trace", at, "--render-trace", rt, "--opts", "all"], env={"VERIF_LAYOUT": "1"})
    ev = c.read_ndjson(at)
    lines, acc = rejected_lines("ApiTrace", ev, "api-ok")
    expect("ApiTrace accepts the unmodified trace", lines == [], "%d events" % acc)
    e = copy.deepcopy(ev)
    i = next(k for k, x in enumerate(e) if x.get("ev") == "Op" and x["op"]["op"] == "optional")
    e[i]["after"]["ch"][-1]["t"] = "M"
    lines, _ = rejected_lines("ApiTrace", e, "api-tag")
    expect("ApiTrace rejects set_child_optional that left the child mandatory", lines == [i + 1], "rejected %s" % lines)
    rev = c.read_ndjson(rt)
    n, infos, st = c.judge_trace("RenderTrace", rt, "selftest-render-ok")
    expect("RenderTrace finds nothing on the unmodified rendering", not infos, "%d renders" % sum(len(x["renders"]) for x in rev))
    e = copy.deepcopy(rev)
    e[0]["renders"][0]["structs"][0]["fields"][0]["opt"] = True
    c.write_ndjson(rt, e)
    n, infos, st = c.judge_trace("RenderTrace", rt, "selftest-render-bad")
    tags = set(t for i in infos for t in i["tags"])
    expect("RenderTrace flags a field whose Option wrapper was changed", "FIELDS_DIFFER" in tags and any(i["drift"] for i in infos), str(sorted(tags)))
    e = copy.deepcopy(rev)
    e[0]["renders"][0]["structs"][1]["name"] = e[0]["renders"][0]["structs"][0]["name"]
    c.write_ndjson(rt, e)
    n, infos, st = c.judge_trace("RenderTrace", rt, "selftest-render-dup")
    tags = set(t for i in infos for t in i["tags"])
    expect("RenderTrace flags a duplicated struct name", "DUP_STRUCT" in tags, str(sorted(tags)))
    e = copy.deepcopy(rev)
    withtext = [(a, b) for a, x in enumerate(e) for b, r in enumerate(x["renders"]) if "textchars" in r]
    expect("render lines carry the output text as a character sequence", bool(withtext), "%d renders with textchars" % len(withtext))
    a, b = withtext[0]
    k = e[a]["renders"][b]["textchars"].index("{")
    e[a]["renders"][b]["textchars"][k - 1:k - 1] = [" "]          # two blanks before the opening brace
    c.write_ndjson(rt, e)
    n, infos, st = c.judge_trace("RenderTrace", rt, "selftest-render-layout")
    tags = set(t for i in infos for t in i["tags"])
    expect("RenderTrace flags a text that is not the layout of its struct records", tags == {"LAYOUT"}, str(sorted(tags)))
    # --- replay expectation perturbed
    r, cpath = pc.run_instance("SELF", "docs3", "quick", invariants=["TypeOK", "Exact"])
    cs = c.read_ndjson(cpath)[:400]
    k = next(i for i, x in enumerate(cs) if x["indomain"] and x["expect"]["st"] == "ok" and x["ty"].get("kids"))
    cs[k]["ty"]["kids"][0]["opt"] = not cs[k]["ty"]["kids"][0]["opt"]
    c.write_ndjson(cpath, cs)
    mm = cpath + ".mm"
    s = c.harness(["parser-replay", "--cases", cpath, "--mismatches", mm])
    expect("the replay reports a perturbed expectation (and the reference cross-check notices it)",
           s["mismatches"] >= 1 and s["reference_disagreements"] >= 1, json.dumps({k2: s[k2] for k2 in ("mismatches", "reference_disagreements")}))
    # --- vacuity: every action of the small instances is taken
    cfg = c.cfg_text(constants=dict(Alphabet={1, 2, 3}, MaxLen=2, Emit=False), invariants=["InvC15"])
    r = c.run_tlc("MC_Necessity", cfg, "selftest-mc-necessity", coverage=True)
    expect("MC_Necessity: no dead action", all(v[1] > 0 for v in r.actions.values()) and len(r.actions) >= 3, str(r.actions))
    cfg = c.cfg_text(spec="MCSpec", constants=dict(pc.BASE, Names={"a"}, Faults=True, EmptyDocs=True, MaxText=1, MaxIgn=1, TextKinds={"Text", "CData"},
                                                   IgnKinds={"Comment"}, Emit=False), invariants=["TypeOK", "Exact", "Total"])
    r = c.run_tlc("MC_Parser", cfg, "selftest-mc-parser", coverage=True, defs={"AttrLists": "{<<>>}", "OccBudget": "<<2, 1>>"})
    need = ["Begin", "DoOpen", "DoClose", "DoEof", "DoText", "DoIgnored", "Fault", "Drain"]
    expect("MC_Parser: no dead action", all(r.actions.get(a, (0, 0))[1] > 0 for a in need), str({a: r.actions.get(a) for a in need}))
    print("\n%d self-tests failed" % len(FAILED) if FAILED else "\nall self-tests passed")
    return 1 if FAILED else 0


if __name__ == "__main__":
    sys.exit(main())
