#!/bin/sh
# runs every registered quick check on the current /repo tree and prints one line per property
cd "$(dirname "$0")/.." || exit 2
for p in C01 C02 C03 C04 C05 C06 C07 C08 C09 C10 C11 C12 C13 C14 C15 C16; do
  s=$(date +%s)
  out=$(timeout ${2:-1500} ./check $p --tier "${1:-quick}" 2>&1); rc=$?
  e=$(date +%s)
  echo "$p exit=$rc $((e-s))s $(echo "$out" | grep -cE '^VIOLATION') violations, $(echo "$out" | grep -cE '^KNOWN-FINDING') known, $(echo "$out" | grep -cE '^NOTE') notes; $(echo "$out" | grep -E '^TOOL-ERROR' | cut -c1-200)"
done
