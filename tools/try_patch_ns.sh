#!/bin/sh
# usage: try_patch_ns.sh <patch.diff> <check-id>...
# like try_patch.sh, but inside a private mount namespace in which /repo is a scratch copy (/tmp/repo_try): the real /repo is
# never touched, so a background run that reads /repo is not disturbed. The scratch copy is refreshed from /repo first.
# Afterwards the real sources are touched: cargo decides freshness by modification time, and the artifacts built from the
# patched copy are newer than the unchanged real files, so without this the next run on the real tree would silently use them.
set -u
P="$1"; shift
rm -rf /tmp/repo_try && mkdir -p /tmp/repo_try && rsync -a --exclude target --exclude '.git/worktrees' /repo/ /tmp/repo_try/ || exit 2
unshare -m sh -c 'mount --bind /tmp/repo_try /repo && exec /verif/tools/try_patch.sh "$@"' sh "$P" "$@"
find /repo/src /repo/Cargo.toml -type f -exec touch {} +
rm -rf /tmp/repo_try
