"""C13 — serde-xml-rs preset: generated code compiles and deserializes its sources."""
from . import programs_common as pg

RULE = ("as C02 with the serde-xml-rs preset, serde_xml_rs::from_str and the domain DomC13 (namespace-free, attribute names "
        "distinct from child names, repeated children adjacent, no mixed content); random sequences are generated with adjacent "
        "repeats and without prefixed names. non-trivial = programs whose documents are inside the domain")


def run(tier, rep):
    pg.check(rep, "C13", "serde_xml_rs", tier, RULE)
    rep.assumptions += ["serde-xml-rs 0.6.0 (the version the repository pins as dev-dependency) is the judge"]


def replay(obj, rep):
    pg.replay(obj, rep, "C13", "serde_xml_rs")
