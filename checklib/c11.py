"""C11 — output depends only on document structure, not on incidental detail."""
from . import parser_common as pc

RULE = ("for the histories of the MC_Parser instances text / children / attrs, FormInsensitive is an invariant of the model "
        "(<x/> and <x></x>, Text and CDATA lead to the same full state in every reading state); on the real code every "
        "rewrite the property lists (other values, other text incl. whitespace, text<->CDATA, insert/remove comment, PI, XML "
        "declaration, DOCTYPE, <x/> <-> <x></x>, expand_empty_elements, chunked readers and BufReader capacities 1..64) is "
        "applied (one random position per kind; quick: on every 6th-12th history, thorough: on every 3rd-6th history) and the rendered bytes under both presets "
        "and both sort orders must be identical. non-trivial = a session to which at least one structural rewrite applied")


def run(tier, rep):
    strides = {"text": 12, "children": 12, "attrs": 8, "names": 1, "mixed": 6} if tier == "quick" else {"text": 6, "children": 6, "attrs": 4, "names": 1, "mixed": 3}

    def relation(rep, inst, cases):
        pc.run_relation(rep, "c11-rewrite", inst, cases, stride=strides[inst],
                        extra=["--all", 0, "--boundary", 1 if inst == "text" else 0])

    # the thorough tier keeps the instance bounds of the quick tier and applies the rewrites to two to three times as many of
    # their histories: with the larger bounds the relation runs alone exceeded 50 minutes (measured twice)
    pc.check(rep, "C11", "quick", ["text", "children", "attrs", "mixed", "names"], set(), None, 0, rule=RULE, relation=relation,
             invariants=["TypeOK", "FormInsensitive", "Exact"], nontrivial=lambda x: x["expect"]["st"] == "ok")
    rep.add(traces_validated_against_impl=rep.coverage.get("relation_applications", 0))
    rep.assumptions += ["text versus no text, and whitespace-only text, are structure (the default reader does not trim) and "
                        "are never rewritten into each other"]


def replay(obj, rep):
    from . import replays
    replays.rerun_relation(obj, rep, "c11-rewrite")
