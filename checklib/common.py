"""Shared machinery of /verif/check: building the harness, running TLC, evidence, violations.

Exit codes of a check: 0 = held on everything explored, 1 = VIOLATION line(s) printed,
2 = tool error / timeout (never reported as a violation).
"""
import hashlib
import json
import os
import re
import shutil
import subprocess
import sys
import time

ROOT = os.path.dirname(os.path.dirname(os.path.abspath(__file__)))
SPEC = os.path.join(ROOT, "spec")
OUT = os.path.join(ROOT, "out")
HARNESS_DIR = os.path.join(ROOT, "harness")
HARNESS = os.path.join(HARNESS_DIR, "target", "release", "xsgv")
EVIDENCE = os.path.join(ROOT, "evidence")
REPLAYS = os.path.join(OUT, "replays")
FINDINGS_FILE = os.path.join(ROOT, "known_findings.json")


class ToolError(Exception):
    pass


def log(msg):
    print(msg, flush=True)


def seed():
    try:
        return int(os.environ.get("VERIF_SEED", "20260927"))
    except ValueError:
        return 20260927


def ensure_dirs():
    for d in (OUT, EVIDENCE, REPLAYS, os.path.join(OUT, "tlc"), os.path.join(OUT, "traces"), os.path.join(OUT, "cases")):
        os.makedirs(d, exist_ok=True)


_built = False


def build_harness():
    """(Re)build the harness; it has a path dependency on /repo, so this picks up the current working tree."""
    global _built
    if _built:
        return
    env = dict(os.environ, CARGO_NET_OFFLINE="true")
    t = time.time()
    p = subprocess.run(["cargo", "build", "--release", "--offline", "--quiet"], cwd=HARNESS_DIR, env=env,
                       stdout=subprocess.PIPE, stderr=subprocess.STDOUT, text=True)
    if p.returncode != 0:
        raise ToolError("harness build failed (does /repo still compile with --features xsg_verif?):\n" + p.stdout[-4000:])
    _built = True
    log("[build] harness rebuilt from /repo working tree in %.1fs" % (time.time() - t))


def harvest_literals():
    """string and byte-string literals of the library's non-test source that could be XML names or short values: inputs
    equal to a constant of the code under test (the name of the parser's synthetic wrapper element, a magic attribute
    name, a keyword) are the ones a special case would be written for. Harvested from the tree the check runs on."""
    out = []
    for root, _, files in os.walk("/repo/src"):
        for f in sorted(files):
            if not f.endswith(".rs") or f == "verif.rs":
                continue
            text = open(os.path.join(root, f), errors="replace").read()
            cut = text.find("#[cfg(test)]")
            if cut >= 0:
                text = text[:cut]
            text = re.sub(r"^\s*//.*$", "", text, flags=re.M)
            for m in re.finditer(r'b?"((?:[^"\\\n]|\\.){1,24})"', text):
                lit = m.group(1)
                if re.fullmatch(r"[A-Za-z_:$@#][\w:.$@#-]{0,23}|[0-9]{1,4}", lit) and lit not in out:
                    out.append(lit)
    path = os.path.join(OUT, "cases", "literals.txt")
    ensure_dirs()
    with open(path, "w") as fh:
        fh.write("\n".join(out))
    return path


def harness(args, timeout=1800, stdin=None, env=None, cwd=None):
    """Run a harness sub-command; returns the parsed JSON summary printed on its last stdout line."""
    build_harness()
    e = dict(os.environ)
    e.setdefault("VERIF_LITERALS", harvest_literals())
    if env:
        e.update(env)
    try:
        p = subprocess.run([HARNESS] + [str(a) for a in args], stdout=subprocess.PIPE, stderr=subprocess.PIPE,
                           text=True, timeout=timeout, input=stdin, env=e, cwd=cwd)
    except subprocess.TimeoutExpired:
        raise ToolError("harness %s timed out after %ss" % (args[0], timeout))
    if p.returncode != 0:
        raise ToolError("harness %s exited %s: %s" % (args[0], p.returncode, (p.stderr or p.stdout)[-2000:]))
    lines = [x for x in p.stdout.strip().splitlines() if x.strip()]
    if not lines:
        raise ToolError("harness %s printed nothing" % args[0])
    try:
        return json.loads(lines[-1])
    except json.JSONDecodeError:
        raise ToolError("harness %s: unparsable summary %r" % (args[0], lines[-1][:300]))


def read_ndjson(path):
    out = []
    if not os.path.exists(path):
        return out
    with open(path) as f:
        for line in f:
            line = line.strip()
            if line:
                out.append(json.loads(line))
    return out


def write_ndjson(path, items):
    os.makedirs(os.path.dirname(path), exist_ok=True)
    with open(path, "w") as f:
        for it in items:
            f.write(json.dumps(it, separators=(",", ":")) + "\n")


# ----------------------------------------------------------------------------- TLC

class TLCResult:
    def __init__(self):
        self.generated = 0
        self.distinct = 0
        self.depth = 0
        self.replay = []          # parsed REPLAY objects (if not streamed to a file)
        self.replay_count = 0
        self.actions = {}         # action name -> (distinct, total)
        self.violated = None      # name of a violated invariant / property
        self.rejected = None      # parsed TRACE-REJECTED object
        self.error_text = ""
        self.wall = 0.0
        self.cmd = ""
        self.ok = False
        self.printed = []         # other PrintT lines (parsed JSON strings)


def cfg_text(spec="Spec", constants=None, invariants=(), properties=(), constraints=(), action_constraints=(),
             postcondition=None, view=None, init=None, next_=None, symmetry=None):
    lines = []
    if init and next_:
        lines += ["INIT " + init, "NEXT " + next_]
    else:
        lines.append("SPECIFICATION " + spec)
    if constants:
        lines.append("CONSTANTS")
        for k, v in constants.items():
            lines.append("  %s = %s" % (k, tla_value(v)))
    for i in invariants:
        lines.append("INVARIANT " + i)
    for p in properties:
        lines.append("PROPERTY " + p)
    for c in constraints:
        lines.append("CONSTRAINT " + c)
    for c in action_constraints:
        lines.append("ACTION_CONSTRAINT " + c)
    if postcondition:
        lines.append("POSTCONDITION " + postcondition)
    if view:
        lines.append("VIEW " + view)
    if symmetry:
        lines.append("SYMMETRY " + symmetry)
    lines.append("CHECK_DEADLOCK FALSE")
    return "\n".join(lines) + "\n"


def tla_value(v):
    """Python value -> TLC config constant syntax (sets as python sets/frozensets, sequences as tuples/lists)."""
    if isinstance(v, bool):
        return "TRUE" if v else "FALSE"
    if isinstance(v, int):
        return str(v)
    if isinstance(v, str):
        return '"%s"' % v
    if isinstance(v, (set, frozenset)):
        return "{" + ", ".join(sorted(tla_value(x) for x in v)) + "}"
    if isinstance(v, (list, tuple)):
        return "<<" + ", ".join(tla_value(x) for x in v) + ">>"
    if isinstance(v, Raw):
        return v.text
    raise ValueError("cannot render %r as a TLA+ constant" % (v,))


class Raw:
    def __init__(self, text):
        self.text = text


_ACTION_RE = re.compile(r"^<(\w+) line \d+, col \d+ to line \d+, col \d+ of module (\w+)>: (\d+):(\d+)")
_STATS_RE = re.compile(r"^(\d+) states generated, (\d+) distinct states found, (\d+) states left on queue")
_DEPTH_RE = re.compile(r"^The depth of the complete state graph search is (\d+)")
_INV_RE = re.compile(r"^Error: Invariant (\w+) is violated")
_PROP_RE = re.compile(r"^Error: (?:Action property|Temporal properties|Property) ?(\w+)?")
_SIM_RE = re.compile(r"^The number of states generated: (\d+)")


def run_tlc(module, cfg, name, workers=8, timeout=900, env=None, simulate=None, depth=None, xmx="8g",
            deque=False, replay_to=None, coverage=True, keep_replay=True, sim_seed=None, defs=None, libs=()):
    """Run TLC on spec/<module>.tla with the given config text. REPLAY lines are parsed into result.replay
    (and/or streamed to the file replay_to as ndjson)."""
    ensure_dirs()
    wd = os.path.join(OUT, "tlc", name)
    shutil.rmtree(wd, ignore_errors=True)
    os.makedirs(wd)
    cfgp = os.path.join(wd, name + ".cfg")
    root_module = module
    if defs:
        # constants that the config-file syntax cannot express (tuples, records) become definitions of a
        # generated module that extends the instance; the config substitutes them (X <- def_X)
        root_module = "G_" + re.sub(r"\W", "_", name)
        with open(os.path.join(wd, root_module + ".tla"), "w") as f:
            f.write("---- MODULE %s ----\nEXTENDS %s\n" % (root_module, module))
            for k, v in defs.items():
                f.write("def_%s == %s\n" % (k, v))
            f.write("====\n")
        sub = "".join("  %s <- def_%s\n" % (k, k) for k in defs)
        if "CONSTANTS\n" in cfg:
            cfg = cfg.replace("CONSTANTS\n", "CONSTANTS\n" + sub, 1)
        else:
            cfg = "CONSTANTS\n" + sub + cfg
    with open(cfgp, "w") as f:
        f.write(cfg)
    jopts = "-Xss1g -Dfile.encoding=UTF-8"
    if deque:
        jopts += " -Dtlc2.tool.queue.IStateQueue=StateDeque"
    e = dict(os.environ, JAVA_TOOL_OPTIONS=jopts)
    if env:
        e.update(env)
    cmd = ["java", "-XX:+UseParallelGC", "-Xmx" + xmx, "-DTLA-Library=" + os.pathsep.join([SPEC] + list(libs)), "-cp",
           "/opt/veriftools/tla/tla2tools.jar:/opt/veriftools/tla/CommunityModules-deps.jar", "tlc2.TLC",
           "-workers", str(workers), "-metadir", os.path.join(wd, "md"), "-cleanup", "-noGenerateSpecTE",
           "-config", cfgp]
    if coverage and not simulate:
        cmd += ["-coverage", "1"]
    if simulate:
        cmd += ["-simulate", "num=%d" % simulate]
        if depth:
            cmd += ["-depth", str(depth)]
        if sim_seed is not None:
            cmd += ["-seed", str(sim_seed)]
    cmd.append(os.path.join(wd, root_module + ".tla") if defs else module + ".tla")
    res = TLCResult()
    res.cmd = "tlc " + " ".join(cmd[cmd.index("tlc2.TLC") + 1:])
    logp = os.path.join(wd, "tlc.log")
    t0 = time.time()
    rf = open(replay_to, "w") if replay_to else None
    timed_out = False
    with open(logp, "w") as lf:
        p = subprocess.Popen(["timeout", str(timeout)] + cmd, cwd=SPEC, env=e, stdout=subprocess.PIPE,
                             stderr=subprocess.STDOUT, text=True, errors="replace")
        in_error = False
        for line in p.stdout:
            if line.startswith('"REPLAY '):
                try:
                    obj = json.loads(json.loads(line)[7:])
                except Exception:
                    lf.write(line)
                    continue
                res.replay_count += 1
                if rf:
                    rf.write(json.dumps(obj, separators=(",", ":")) + "\n")
                if keep_replay and not rf:
                    res.replay.append(obj)
                continue
            if line.startswith('"TRACE-REJECTED '):
                try:
                    res.rejected = json.loads(json.loads(line)[15:])
                except Exception:
                    res.rejected = {"raw": line[:2000]}
                continue
            if line.startswith('"INFO '):
                try:
                    res.printed.append(json.loads(json.loads(line)[5:]))
                except Exception:
                    pass
                continue
            lf.write(line)
            m = _ACTION_RE.match(line)
            if m:
                a = m.group(1)
                d, t = int(m.group(3)), int(m.group(4))
                old = res.actions.get(a, (0, 0))
                res.actions[a] = (max(old[0], d), max(old[1], t))
                continue
            m = _STATS_RE.match(line)
            if m:
                res.generated, res.distinct = int(m.group(1)), int(m.group(2))
                continue
            m = _SIM_RE.match(line)
            if m:
                res.generated = res.distinct = int(m.group(1))
                continue
            m = _DEPTH_RE.match(line)
            if m:
                res.depth = int(m.group(1))
                continue
            m = _INV_RE.match(line)
            if m:
                res.violated = m.group(1)
                in_error = True
            if line.startswith("Error:"):
                in_error = True
                if res.violated is None and "Postcondition" not in line and "is violated" in line:
                    res.violated = "property"
            if in_error and len(res.error_text) < 20000:
                res.error_text += line
        rc = p.wait()
        if rc == 124:
            timed_out = True
    if rf:
        rf.close()
    res.wall = time.time() - t0
    shutil.rmtree(os.path.join(wd, "md"), ignore_errors=True)
    if timed_out:
        raise ToolError("TLC %s timed out after %ss (log %s)" % (name, timeout, logp))
    # TLC exit codes: 0 ok, 12 safety violation, 13 liveness, 10/11 assumption/deadlock, others = errors
    res.ok = rc == 0
    if rc == 13 and res.violated is None:
        res.violated = "temporal property"
    if rc != 0 and res.violated is None and res.rejected is None:
        tail = subprocess.run(["tail", "-n", "30", logp], stdout=subprocess.PIPE, text=True).stdout
        raise ToolError("TLC %s failed with exit %s (log %s):\n%s" % (name, rc, logp, tail))
    return res


def require_coverage(res, actions, what):
    """Vacuity guard: every named action must have been taken at least once."""
    missing = [a for a in actions if res.actions.get(a, (0, 0))[1] == 0]
    if missing:
        raise ToolError("%s: actions never taken in the model run: %s" % (what, ", ".join(missing)))


# ----------------------------------------------------------------------------- trace validation

def validate_trace(module, trace_path, name, cfg=None, timeout=900, max_rejections=5, xmx="4g", extra_env=None):
    """Validate an ndjson trace against spec/<module>.tla. On rejection the offending run (delimited by
    events with ev = "Reset") is cut out and validation continues with the remainder.
    Returns (accepted_events, rejections[list of dict(line,event,run)], total_states)."""
    events = read_ndjson(trace_path)
    rejections = []
    states = 0
    accepted = 0
    offset = 0
    cur = events
    rounds = 0
    while cur:
        rounds += 1
        part = os.path.join(OUT, "traces", "%s.part%d.ndjson" % (name, rounds))
        write_ndjson(part, cur)
        env = {"TRACE": part}
        if extra_env:
            env.update(extra_env)
        r = run_tlc(module, cfg or cfg_text(postcondition="Accepted"), name + "-r%d" % rounds, workers=1,
                    timeout=timeout, env=env, deque=True, coverage=False, xmx=xmx)
        states += r.distinct
        if r.violated:
            # an invariant of the specification failed on a state reached along the recorded trace
            rejections.append({"line": None, "event": None, "invariant": r.violated, "error": r.error_text[:3000],
                               "offset": offset})
            os.remove(part)
            break
        if r.rejected is None:
            accepted += len(cur)
            os.remove(part)
            break
        line = r.rejected.get("line", 1)
        # run boundaries
        start = line - 1
        while start > 0 and cur[start].get("ev") not in ("Reset", "Begin"):
            start -= 1
        end = line
        while end < len(cur) and cur[end].get("ev") not in ("Reset", "Begin"):
            end += 1
        rejections.append({"line": offset + line, "event": r.rejected.get("event"), "run": cur[start:end],
                           "state": r.rejected.get("state")})
        accepted += start
        offset += end
        cur = cur[end:]
        os.remove(part)
        if len(rejections) >= max_rejections:
            break
    return accepted, rejections, states


def judge_trace(module, trace_path, name, timeout=1800, xmx="6g", extra_env=None):
    """Run a judging trace spec (every line is consumed; verdicts are printed as INFO lines).
    Returns (number of lines consumed, list of INFO objects, states)."""
    n = sum(1 for _ in open(trace_path))
    env = {"TRACE": trace_path}
    if extra_env:
        env.update(extra_env)
    r = run_tlc(module, cfg_text(postcondition="Accepted"), name, workers=1, timeout=timeout, env=env, deque=True,
                coverage=False, xmx=xmx)
    if r.rejected is not None or r.violated:
        raise ToolError("%s: the judging trace spec stopped at line %s of %s (%s)" % (
            module, (r.rejected or {}).get("line"), trace_path, r.violated or "no action enabled"))
    return n, r.printed, r.distinct


# ----------------------------------------------------------------------------- findings, violations, evidence

def load_findings():
    if not os.path.exists(FINDINGS_FILE):
        return {"findings": [], "fixed": []}
    with open(FINDINGS_FILE) as f:
        return json.load(f)


class Report:
    """Collects the outcome of one check run and turns it into exit code, VIOLATION lines and evidence."""

    def __init__(self, pid, tier, level):
        self.pid = pid
        self.tier = tier
        self.level = level
        self.t0 = time.time()
        self.violations = []       # replay paths
        self.known = {}            # finding id -> text
        self.coverage = {}
        self.assumptions = []
        self.findings = [f for f in load_findings().get("findings", []) if f.get("property") == pid]

    def violation(self, replay_obj, summary=""):
        ensure_dirs()
        replay_obj = dict(replay_obj)
        replay_obj.setdefault("property", self.pid)
        blob = json.dumps(replay_obj, sort_keys=True)
        h = hashlib.sha1(blob.encode()).hexdigest()[:12]
        path = os.path.join(REPLAYS, "%s-%s.json" % (self.pid, h))
        if len(self.violations) < 40:
            with open(path, "w") as f:
                json.dump(replay_obj, f, indent=1, sort_keys=True)
        if path not in self.violations:
            self.violations.append(path)
            if len(self.violations) <= 20:
                log("VIOLATION property=%s replay=%s%s" % (self.pid, path, (" " + summary) if summary else ""))

    def known_finding(self, finding, what):
        if finding["id"] not in self.known:
            self.known[finding["id"]] = what
            log("KNOWN-FINDING: property=%s %s %s" % (self.pid, finding["id"], what))

    def match_finding(self, cls):
        for f in self.findings:
            if cls in f.get("classes", []) or f.get("class") == cls:
                return f
        return None

    def add(self, **kw):
        for k, v in kw.items():
            if isinstance(v, int) and not isinstance(v, bool) and isinstance(self.coverage.get(k), int):
                self.coverage[k] += v
            elif isinstance(v, list) and isinstance(self.coverage.get(k), list):
                self.coverage[k] += v
            else:
                self.coverage[k] = v

    def finish(self):
        ensure_dirs()
        cov = dict(self.coverage)
        if "samples" in cov:
            cov["samples"] = cov["samples"][:6]
        ev = {
            "property_id": self.pid,
            "tier": self.tier,
            "seed": seed(),
            "level": self.level,
            "coverage": cov,
            "assumptions": self.assumptions,
            "wall_s": round(time.time() - self.t0, 2),
            "violations": len(self.violations),
            "known_findings": sorted(self.known.keys()),
        }
        # evidence is only written by regular runs (not by replays, and not while a seeded change is tried out)
        if not getattr(self, "replay_mode", False) and not os.environ.get("VERIF_NO_EVIDENCE"):
            with open(os.path.join(EVIDENCE, self.pid + ".json"), "w") as f:
                json.dump(ev, f, indent=1, sort_keys=True)
                f.write("\n")
        if self.violations:
            if len(self.violations) > 20:
                log("(%d further violations not listed)" % (len(self.violations) - 20))
            return 1
        log("OK property=%s tier=%s wall=%.1fs %s" % (self.pid, self.tier, ev["wall_s"],
            json.dumps({k: v for k, v in cov.items() if isinstance(v, (int, bool))})))
        return 0
