"""C03 — Optional / Vec / text inference is exact, not merely safe."""
from . import parser_common as pc

RULE = ("every event history of the MC_Parser instances children / attrs / text (all sibling orders, repetitions, nestings, "
        "attribute subsets per occurrence, text/CDATA/comment placements, 1-2 documents within the bounds) is a case; each "
        "is serialised to XML and parsed by the real code; the returned tree's schema must equal Schema!TyOf of the "
        "documents modulo field order. non-trivial = the determined schema contains an Option or a Vec")


def run(tier, rep):
    pc.check(rep, "C03", tier, ["children", "attrs", "text", "mixed"], {"schema", "unsound"}, "C03",
             sessions=400 if tier == "quick" else 6000, nontrivial=pc.has_demotion_or_multi, rule=RULE,
             invariants=["TypeOK", "Exact", "StackWF", "ResultWF"])
    pc.mechanism_trace(rep, "C03", 150 if tier == "quick" else 3000)
    rep.assumptions += ["the schema of the returned tree is read through the verif_view hook (attributes and positions are "
                        "private); its rendering is bound separately by the renderer checks (C04/C10/C16)",
                        "documents with several top-level elements or a different root name in a later document are outside "
                        "the property's domain and only checked for conformance with the model"]


def replay(obj, rep):
    from . import replays
    replays.rerun(obj, rep, {"schema", "unsound"}, "C03")
