"""C04 — rendered source is well-formed Rust with unique, legal names."""
from . import render_common as rc

RULE = ("trees are enumerated by TLC as sequences of public operations (MC_ElementApi) over adversarial name pools (case variants, "
        "separator variants, concatenations, String/Option/Vec, keywords, prefixed, non-ASCII, one name at many depths, "
        "underscore-only, identifier-colliding field names); each tree is built through the real API, rendered, parsed by "
        "the strict template parser and judged by RenderProps!C04Tags in RenderTrace; the as-coded renderer model "
        "(Render.tla) is judged on the same trees at design level. non-trivial = rendered trees with at least two structs")


def run(tier, rep):
    pools = ["case", "separators", "concat", "shadow", "keywords", "prefixed", "nonascii", "nonascii2", "nonasciicaps", "offsets", "bignum", "depth", "underscore", "fields", "fields2", "xmlnsish", "attrcase", "kwsibling", "kwparent", "suffixlit"]
    pools += ["digits", "caseruns", "digitlocal"] + rc.keyword_pools(tier)
    rc.render_pools(rep, "C04", tier, pools, rc.C04_TAGS, limit=600 if tier == "quick" else 15000)
    rc.random_trees(rep, "C04", tier, rc.C04_TAGS, n=300 if tier == "quick" else 5000)
    rc.random_trees(rep, "C04", tier, rc.C04_TAGS, pool=["a", "b", "c", "d"], remove=0, mode="paths", pool_all=True,
                    n=1200 if tier == "quick" else 20000, tag="paths")
    # scale: wide elements, long names
    wide = ["k%s" % ch for ch in "abcdefghijklmn"] + ["type", "Type", "a-rather-long-hyphenated-element-name", "ARatherLongCamelCaseElementName"]
    rc.random_trees(rep, "C04", tier, rc.C04_TAGS, n=20 if tier == "quick" else 500, ops=80, pool=wide, root_bias=60, pool_all=True, tag="wide")
    rc.boundary_sessions(rep, "C04", tier, rc.C04_TAGS, n=18 if tier == "quick" else 216)
    # "all documents and document sequences": trees that come out of the parser, including documents it should not accept
    rc.parsed_sessions(rep, "C04", tier, rc.C04_TAGS)
    rep.add(distinct_nontrivial=rep.coverage.get("trees_rendered", 0), rule=RULE, exhaustive=False,
            checker_cmd="tlc MC_ElementApi.tla (per pool) ; tlc RenderTrace.tla (judging)")
    rep.assumptions += ["'syntactically valid sequence of struct items' is reduced to: the output fits the fixed template "
                        "(strict parser, any other line is a violation) and every name is a legal identifier; the reduction "
                        "itself is exercised by compiling generated programs (C02/C13)",
                        "identifier legality is decided over the model alphabet (Chars.tla)"]


def replay(obj, rep):
    rc.replay_render(obj, rep, rc.C04_TAGS)
