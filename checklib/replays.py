"""Re-execution of replay files (`./check <ID> --replay <file>`)."""
import json
import os
from . import common as c


def docs_of(obj):
    if obj.get("docs"):
        return [{"hex": d["hex"], "cfg": d.get("cfg", {})} for d in obj["docs"]]
    return [{"hex": e["hex"], "cfg": {}} for e in obj.get("run", []) if e.get("ev") == "Call"]


def rerun(obj, rep, classes, mode):
    """documents of the replay file -> one real session -> SchemaTrace in the property's mode"""
    if obj.get("kind") == "model":
        c.log("design-level counterexample (TLC trace) — nothing to execute:\n" + obj.get("trace", "")[:4000])
        rep.add(evaluations=1, distinct_nontrivial=1, samples=[obj.get("invariant")], states=1, transitions=1,
                traces_validated_against_impl=0)
        return
    docs = docs_of(obj)
    dfile = os.path.join(c.OUT, "cases", "%s.replay.docs.json" % rep.pid)
    with open(dfile, "w") as f:
        json.dump({"docs": docs}, f)
    trace = os.path.join(c.OUT, "traces", "%s.replay.ndjson" % rep.pid)
    t = c.harness(["docs-trace", "--docs", dfile, "--out", trace])
    acc, rej, st = c.validate_trace("SchemaTrace", trace, "%s-replay" % rep.pid, extra_env={"MODE": mode})
    for x in rej:
        e = x.get("event") or {}
        rep.violation({"kind": "session", "mode": mode, "run": x.get("run"), "rejected_line": x.get("line")},
                      "%s -> %s" % (e.get("doc"), str(e.get("result"))[:300]))
    rep.add(evaluations=len(docs), distinct_nontrivial=len(docs), samples=[[bytes.fromhex(d["hex"]).decode("utf-8", "replace") for d in docs]],
            states=st, transitions=st, traces_validated_against_impl=acc)


def rerun_relation(obj, rep, cmd):
    """a `rewrite` replay file holds two document sequences that must give the same result"""
    dfile = os.path.join(c.OUT, "cases", "%s.replay.pair.json" % rep.pid)
    with open(dfile, "w") as f:
        json.dump({"a": docs_of({"docs": obj["docs"]}), "b": docs_of({"docs": obj["rewritten_docs"]}),
                   "feed": obj.get("feed", "Whole"), "class": obj.get("class")}, f)
    s = c.harness(["pair-compare", "--pair", dfile])
    if not s["equal"]:
        rep.violation(dict(obj, actual_now=s), "%s still changes the result" % obj.get("rewrite"))
    rep.add(evaluations=2, distinct_nontrivial=2, samples=[obj.get("rewrite")], states=1, transitions=1,
            traces_validated_against_impl=2)
