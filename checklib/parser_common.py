"""Instances of MC_Parser and the shared spec->impl / impl->spec runs used by C01 C03 C06 C08 C09 C11."""
import os
from . import common as c

BASE = dict(HashOrder=False, RootName="r", MaxDepth=3, MaxText=0, MaxIgn=0, TextKinds=set(), IgnKinds=set(),
            Forms={"Start", "Empty"}, Faults=False, EmptyDocs=False, Emit=True)

# name -> (constants overriding BASE, defs per tier)
INSTANCES = {
    # every sibling order / repetition / nesting / occurrence assignment, pairs of documents
    "children": (dict(Names={"a", "b"}),
                 {"quick": dict(AttrLists="{<<>>}", OccBudget="<<4, 4>>"),
                  "thorough": dict(AttrLists="{<<>>}", OccBudget="<<5, 4>>")}),
    # three-document histories including element-less documents
    "docs3": (dict(Names={"a", "b"}, EmptyDocs=True),
              {"quick": dict(AttrLists="{<<>>}", OccBudget="<<3, 2, 2>>"),
               "thorough": dict(AttrLists="{<<>>}", OccBudget="<<3, 3, 3>>")}),
    # four calls: state that accumulates across extends (counts, flags of the root)
    "docs4": (dict(Names={"a"}, EmptyDocs=True),
              {"quick": dict(AttrLists='{<<>>, <<"p">>}', OccBudget="<<2, 2, 2, 2>>"),
               "thorough": dict(AttrLists='{<<>>, <<"p">>}', OccBudget="<<3, 2, 2, 2>>")}),
    # every assignment of ordered attribute lists to the occurrences of one repeated element
    "attrs": (dict(Names={"a"}, MaxDepth=2),
              {"quick": dict(AttrLists='{<<>>, <<"p">>, <<"q">>, <<"p","q">>, <<"q","p">>, <<"p","q","s">>, <<"s","q","p">>}',
                             OccBudget="<<3, 1>>"),
               "thorough": dict(AttrLists='{<<>>, <<"p">>, <<"q">>, <<"s">>, <<"p","q">>, <<"q","p">>, <<"p","s">>, '
                                          '<<"q","s">>, <<"p","q","s">>, <<"s","q","p">>, <<"q","s","p">>}',
                                OccBudget="<<3, 2>>")}),
    # placement of Text / CDATA / comments / PIs
    "text": (dict(Names={"a"}, MaxText=2, MaxIgn=1, TextKinds={"Text", "CData"}, IgnKinds={"Comment", "PI", "Decl", "DocType"}),
             {"quick": dict(AttrLists="{<<>>}", OccBudget="<<2, 1>>"),
              "thorough": dict(AttrLists="{<<>>}", OccBudget="<<3, 1>>")}),
    # all dimensions at once within a small bound: attributes, text, both forms, two documents
    "mixed": (dict(Names={"a"}, MaxText=1, TextKinds={"Text", "CData"}),
              {"quick": dict(AttrLists='{<<>>, <<"p">>}', OccBudget="<<3, 2>>"),
               "thorough": dict(AttrLists='{<<>>, <<"p">>, <<"q", "p">>}', OccBudget="<<3, 2>>")}),
    # names whose identifiers / struct names collide: the inputs on which internal order is observable
    "names": (dict(Names={"Foo", "foo"}, RootName="r"),
              {"quick": dict(AttrLists="{<<>>}", OccBudget="<<4, 3>>"),
               "thorough": dict(AttrLists='{<<>>, <<"foo">>}', OccBudget="<<4, 3>>")}),
    # one fault of each kind injected at any point, both operations
    "errors": (dict(Names={"a"}, Faults=True, EmptyDocs=True, MaxText=1, MaxIgn=1, TextKinds={"Text"}, IgnKinds={"Comment"}),
               {"quick": dict(AttrLists="{<<>>}", OccBudget="<<2, 1>>"),
                "thorough": dict(AttrLists='{<<>>, <<"p">>}', OccBudget="<<3, 1>>")}),
}

ALL_INVARIANTS = ["TypeOK", "Exact", "Sound", "StackWF", "ResultWF", "Monotone", "NoOpOnEmptyDoc",
                  "NoRootOnlyForParse", "Verdict", "EmitCase"]


def run_instance(pid, inst, tier, invariants=None, extra=None, emit=True, timeout=1500, workers=8, coverage=False):
    consts, defs = INSTANCES[inst]
    k = dict(BASE)
    k.update(consts)
    k["Emit"] = emit
    d = dict(defs[tier])
    if extra:
        for key, v in extra.items():
            if key in ("AttrLists", "OccBudget"):
                d[key] = v
            else:
                k[key] = v
    inv = list(invariants or ALL_INVARIANTS)
    if "EmitCase" not in inv:
        inv.append("EmitCase")
    cfg = c.cfg_text(spec="MCSpec", constants=k, invariants=inv)
    cases = os.path.join(c.OUT, "cases", "%s-%s.ndjson" % (pid, inst))
    r = c.run_tlc("MC_Parser", cfg, "%s-%s" % (pid, inst), workers=workers, defs=d, coverage=coverage,
                  replay_to=cases if emit else None, timeout=timeout, xmx="12g")
    return r, cases


def run_simulation(pid, tier, invariants=None):
    """beyond the exhaustive bounds: TLC in simulation mode on a larger instance (three names, depth 4, text / CDATA /
    comments / PIs, three calls of up to 9 / 7 / 5 element occurrences, element-less documents); every returned state
    of every behaviour is a replay case, the invariants are evaluated along the way"""
    k = dict(BASE)
    k.update(dict(Names={"a", "b", "c"}, MaxDepth=4, MaxText=2, MaxIgn=1, TextKinds={"Text", "CData"}, IgnKinds={"Comment", "PI"},
                  EmptyDocs=True, Emit=True))
    inv = list(invariants or ["TypeOK", "Exact", "Sound", "StackWF"])
    if "EmitCase" not in inv:
        inv.append("EmitCase")
    cfg = c.cfg_text(spec="MCSpec", constants=k, invariants=inv)
    cases = os.path.join(c.OUT, "cases", "%s-sim.ndjson" % pid)
    r = c.run_tlc("MC_Parser", cfg, "%s-sim" % pid, workers=4, coverage=False, replay_to=cases, timeout=900,
                  defs=dict(AttrLists='{<<>>, <<"p">>, <<"q","p">>, <<"p","q","s">>}', OccBudget="<<9, 7, 5>>"),
                  simulate=400 if tier == "quick" else 8000, depth=80, sim_seed=c.seed() % 100000 + 1)
    return r, cases


RENDER_TAGS = {"C01": {"FIELDS_DIFFER", "STRUCT_COUNT"}, "C03": {"FIELDS_DIFFER", "STRUCT_COUNT"},
               "C09": {"FIELD_ORDER", "STRUCT_ORDER", "SORT_CHANGES_MORE", "STRUCT_COUNT"}}


def replay(pid, inst, cases, rep=None, render_limit=1500):
    mm = os.path.join(c.OUT, "cases", "%s-%s.mismatch.ndjson" % (pid, inst))
    args = ["parser-replay", "--cases", cases, "--mismatches", mm]
    rtrace = None
    if rep is not None and pid in RENDER_TAGS:
        # the renderings of the enumerated histories are judged as well (a stride keeps the judging time bounded)
        n = sum(1 for _ in open(cases))
        rtrace = os.path.join(c.OUT, "traces", "%s-%s-render.ndjson" % (pid, inst))
        args += ["--render-trace", rtrace, "--render-stride", max(1, n // render_limit)]
    s = c.harness(args, timeout=3000)
    if rtrace:
        from . import render_common as rc
        rc.check_chars()
        n, infos, st = c.judge_trace("RenderTrace", rtrace, "%s-%s-render" % (pid, inst))
        events = c.read_ndjson(rtrace)
        cnt, drift = rc.classify(rep, infos, RENDER_TAGS[pid], events, "rendering of the histories of instance %s" % inst)
        rep.add(histories_rendered=n, render_drift=drift, traces_validated_against_impl=n)
        os.remove(rtrace)
    if s.get("serializer_failures"):
        raise c.ToolError("%s/%s: the XML serializer self-check failed on %d cases" % (pid, inst, s["serializer_failures"]))
    if s.get("reference_disagreements"):
        raise c.ToolError("%s/%s: Schema!TyOf and the independent Rust reference disagree on %d cases"
                          % (pid, inst, s["reference_disagreements"]))
    return s, c.read_ndjson(mm)


def doc_texts(m):
    return [d["text"] for d in m.get("docs", [])]


def model_violation(rep, r, module="MC_Parser"):
    if r.violated:
        rep.violation({"kind": "model", "module": module, "invariant": r.violated, "trace": r.error_text},
                      "the specification violates %s (design-level counterexample in the replay file)" % r.violated)
        return True
    return False


def sample_cases(cases, n=3, pred=None):
    out = []
    with open(cases) as f:
        for line in f:
            if len(out) >= n:
                break
            import json
            x = json.loads(line)
            if pred is None or pred(x):
                out.append({"calls": [[(e["kind"], e["name"], e["attrs"]) if e["kind"] in ("Start", "Empty") else e["kind"]
                                       for e in cl["events"]] for cl in x["calls"]],
                            "expect": x["expect"].get("proj", x["expect"])})
    return out


def record_and_validate(rep, pid, mode, sessions, elems=30, name=None, damage=8):
    """impl -> spec at the level of the property: random sessions validated by SchemaTrace in the given mode.
    For C01 / C03 the final tree of every session is also rendered and judged by RenderTrace: the *rendered* schema
    (which element is typed String, which gets a struct with a text field, the Option / Vec wrappers) must reflect
    the tree, whatever the character data of the documents was."""
    trace = os.path.join(c.OUT, "traces", "%s-schema.ndjson" % pid)
    rtrace = os.path.join(c.OUT, "traces", "%s-schema-render.ndjson" % pid)
    extra = ["--render-trace", rtrace] if mode in ("C01", "C03", "C09") else []
    cfgs = ["--cfgs", 1] if mode != "C08" else []
    t = c.harness(["schema-record", "--seed", c.seed(), "--n", sessions, "--elems", elems, "--damage", damage, "--out", trace] + extra + cfgs)
    if extra:
        from . import render_common as rc
        n, infos, st = c.judge_trace("RenderTrace", rtrace, "%s-schema-render" % pid)
        events = c.read_ndjson(rtrace)
        relevant = rc.C09_TAGS if mode == "C09" else {"FIELDS_DIFFER", "STRUCT_COUNT"}
        cnt, drift = rc.classify(rep, infos, relevant, events, "rendering of parsed sessions")
        rep.add(parsed_trees_rendered=n, render_drift=drift)
    acc, rej, st = c.validate_trace("SchemaTrace", trace, name or "%s-schema" % pid, extra_env={"MODE": mode}, timeout=1500)
    rep.add(traces_validated_against_impl=acc, trace_events=t["events"], trace_calls=t["calls"], trace_states=st)
    return t, rej


def describe(m):
    d = m.get("detail", {})
    return "%s on %s: %s" % (m.get("class"), " + ".join(doc_texts(m)), str(d)[:300])


def check(rep, pid, tier, instances, classes, mode, sessions, invariants=None, case_filter=None, nontrivial=None,
          rule="", elems=30, relation=None, damage=8):
    """The common shape of the parser-side checks.
    1. TLC checks the invariants on every history of each instance (design level) and prints every returned
       state as a replay case; 2. the harness replays every case through the real parser and reports property-level
       disagreements of the given classes; 3. random larger sessions are validated by SchemaTrace in `mode`."""
    c.build_harness()
    total_cases = 0
    nontriv = 0
    drift = 0
    samples = []
    actions = {}
    for inst in instances:
        r, cases = run_instance(pid, inst, tier, invariants=invariants)
        model_violation(rep, r)
        rep.add(states=r.distinct, transitions=r.generated)
        s, mm = replay(pid, inst, cases, rep, render_limit=1500 if tier == "quick" else 40000)
        if s["cases"] != r.replay_count:
            raise c.ToolError("%s/%s: %d cases printed, %d replayed" % (pid, inst, r.replay_count, s["cases"]))
        total_cases += s["cases"]
        drift += s.get("drift", 0)
        for k, v in s.get("event_kinds", {}).items():
            actions[k] = actions.get(k, 0) + v
        for m in mm:
            if m["class"] in classes and (case_filter is None or case_filter(m)):
                rep.violation(m, describe(m))
            elif m["class"] not in ("verdict", "error-kind", "schema", "order", "unsound"):
                drift += 1
        if relation:
            relation(rep, inst, cases)
        if nontrivial:
            nontriv += count_cases(cases, nontrivial)
        samples += sample_cases(cases, 2, nontrivial)
        rep.add(**{"instance_" + inst: {"states": r.distinct, "cases": s["cases"], "tlc_s": round(r.wall, 1)}})
        if tier == "quick":
            try:
                os.remove(cases)
            except OSError:
                pass
    if mode:
        # simulated behaviours of a larger instance, replayed like the enumerated ones
        r, cases = run_simulation(pid, tier, invariants=[i for i in (invariants or ["TypeOK", "Exact", "Sound", "StackWF"]) if i in ("TypeOK", "Exact", "Sound", "StackWF", "ResultWF", "Monotone", "NoOpOnEmptyDoc")])
        model_violation(rep, r)
        s, mm = replay(pid, "sim", cases, rep, render_limit=400 if tier == "quick" else 4000)
        if s["cases"] != r.replay_count:
            raise c.ToolError("%s/sim: %d cases printed, %d replayed" % (pid, r.replay_count, s["cases"]))
        drift += s.get("drift", 0)
        for m in mm:
            if m["class"] in classes and (case_filter is None or case_filter(m)):
                rep.violation(m, describe(m))
            elif m["class"] not in ("verdict", "error-kind", "schema", "order", "unsound"):
                drift += 1
        rep.add(simulated_behaviour_cases=s["cases"])
        total_cases += s["cases"]
        os.remove(cases)
        t, rej = record_and_validate(rep, pid, mode, sessions, elems=elems, damage=damage)
        for x in rej:
            e = x.get("event") or {}
            rep.violation({"kind": "session", "mode": mode, "run": x.get("run"), "rejected_line": x.get("line"),
                           "rejected_call": {k: e.get(k) for k in ("op", "doc", "hex", "result")},
                           "invariant": x.get("invariant")},
                          "recorded call is not a step SchemaTrace allows in mode %s: %s -> %s" % (
                              mode, e.get("doc"), str(e.get("result"))[:300]))
    rep.add(evaluations=total_cases, distinct_nontrivial=nontriv, samples=samples, exhaustive=True,
            events_replayed=actions, mechanism_drift=drift, rule=rule,
            checker_cmd="tlc -workers 8 -config <generated> MC_Parser.tla (constants per instance in this file)")
    if drift:
        c.log("NOTE property=%s: %d replayed cases reach the same observable schema through an internal state that differs "
              "from the specification's (mechanism drift; not a violation)" % (pid, drift))


def count_cases(cases, pred):
    import json
    n = 0
    with open(cases) as f:
        for line in f:
            if pred(json.loads(line)):
                n += 1
    return n


def has_demotion_or_multi(x):
    """non-trivial for the inference: the predicted schema has an Option or a Vec somewhere"""
    def walk(t):
        return any(a["opt"] for a in t["attrs"]) or any(k["opt"] or k["multi"] or walk(k["ty"]) for k in t["kids"])
    e = x["expect"]
    return e["st"] == "ok" and walk(e["proj"])


def run_relation(rep, cmd, inst, cases, stride=1, extra=()):
    """relations between runs (harness commands c11-rewrite / c06-algebra) over the enumerated cases"""
    mm = os.path.join(c.OUT, "cases", "%s-%s.%s.ndjson" % (rep.pid, inst, cmd))
    s = c.harness([cmd, "--cases", cases, "--stride", stride, "--seed", c.seed(), "--mismatches", mm] + list(extra), timeout=3000)
    for m in c.read_ndjson(mm):
        rep.violation(m, "%s: %s changes the result of %s" % (m.get("class"), m.get("rewrite"), " + ".join(doc_texts(m))))
    rep.add(relation_sessions=s["cases"], relation_applications=s["applied"])
    if "rewrite_kinds" in s:
        old = rep.coverage.get("rewrite_kinds", {})
        for k, v in s["rewrite_kinds"].items():
            old[k] = old.get(k, 0) + v
        rep.coverage["rewrite_kinds"] = old
    return s


def repo_test_documents():
    """the XML string literals of the repository's own tests (happy path first): one session per literal and one
    session per group of literals with the same document element"""
    import re
    docs = []
    for f in ("src/parser.rs", "src/lib.rs", "src/element.rs"):
        try:
            text = open(os.path.join("/repo", f)).read()
        except OSError:
            continue
        for m in re.finditer(r'"((?:[^"\\]|\\.)*)"', text, re.S):
            s = m.group(1)
            if "<" not in s[:40] or ">" not in s:
                continue
            try:
                s = s.replace("\\\n", "")
                s = re.sub(r"\n\s*", lambda x: x.group(0), s)
                s = bytes(s, "utf-8").decode("unicode_escape").encode("latin-1", "replace").decode("utf-8", "replace") if "\\" in s else s
            except Exception:
                continue
            if s.lstrip().startswith("<") and len(s) < 5000:
                docs.append(s)
    groups = {}
    import re as _re
    for d in docs:
        m = _re.search(r"<([A-Za-z_][\w:.-]*)", _re.sub(r"<\?.*?\?>|<!--.*?-->", "", d, flags=_re.S))
        if m:
            groups.setdefault(m.group(1), []).append(d)
    sessions = [{"docs": [d]} for d in docs] + [{"docs": g[:6]} for g in groups.values() if len(g) > 1]
    return sessions


def mechanism_trace(rep, pid, sessions, elems=25):
    """impl -> spec at the level of the mechanism: the steps recorded by the parser hooks (every reader event, the
    snapshot, the element entered, the parent after tagging) validated by ParserTrace with all Parser invariants on.
    A rejected step means the code no longer follows the specification's mechanism; that alone is reported as
    drift, not as a violation (the property-level oracles decide)."""
    docs = os.path.join(c.OUT, "cases", "%s.repo-docs.ndjson" % pid)
    c.write_ndjson(docs, repo_test_documents())
    trace = os.path.join(c.OUT, "traces", "%s-hooks.ndjson" % pid)
    t = c.harness(["parser-record", "--seed", c.seed(), "--n", sessions, "--elems", elems, "--docs", docs, "--out", trace])
    cfg = c.cfg_text(spec="TSpec", constants=dict(HashOrder=False),
                     invariants=["TypeOK", "Exact", "Sound", "StackWF", "ResultWF", "Monotone", "NoOpOnEmptyDoc"],
                     postcondition="Accepted")
    acc, rej, st = c.validate_trace("ParserTrace", trace, "%s-hooks" % pid, cfg=cfg, timeout=1500)
    drift = 0
    for x in rej:
        if x.get("invariant"):
            rep.violation({"kind": "model", "module": "ParserTrace", "invariant": x["invariant"], "trace": x.get("error")},
                          "invariant %s fails on a state of the specification reached along a recorded execution" % x["invariant"])
        else:
            drift += 1
            c.log("NOTE property=%s: hook trace line %s is not a step of Parser.tla (mechanism drift): %s" % (
                pid, x.get("line"), str(x.get("event"))[:300]))
    rep.add(hook_events_validated=acc, hook_trace_calls=t["calls"], mechanism_drift=drift, traces_validated_against_impl=acc,
            trace_states=st)
