"""C14 — struct names are readable: own name, qualified by ancestors only when needed."""
from . import render_common as rc

RULE = ("trees enumerated by TLC over pools in which one name recurs under different parents, at different depths, under "
        "itself and next to unique names; every real struct name must be Pascal(ancestors..)Pascal(own)[suffix] and unqualified "
        "when its PascalCase name occurs at a single position (RenderProps!NameTags), first struct = root. "
        "non-trivial = trees in which some name occurs at two positions")


def run(tier, rep):
    rc.render_pools(rep, "C14", tier, ["depth"], rc.C14_TAGS, opkinds=("add", "text"),
                    maxops=6 if tier == "quick" else 7, maxdepth=4, limit=600 if tier == "quick" else 15000)
    rc.render_pools(rep, "C14", tier, ["plain", "case", "concat", "prefixed", "attrsame", "casefold", "nonasciicaps", "shadow"], rc.C14_TAGS, opkinds=("add", "text"),
                    maxops=4 if tier == "quick" else 5, maxdepth=3, limit=500 if tier == "quick" else 15000)
    # dense reuse of three names at depth: the same name under same-named parents under different grandparents
    rc.random_trees(rep, "C14", tier, rc.C14_TAGS, pool=["a", "b", "c"], ops=25, remove=0, kinds=["add", "add", "add", "text"],
                    n=300 if tier == "quick" else 5000)
    # unions of paths that end in the same name and share parts of their ancestor chains (input space of the name hints);
    # duplicate struct names that the as-coded model does not produce are reported here as well
    rc.random_trees(rep, "C14", tier, rc.C14_TAGS, pool=["a", "b", "c", "d"], remove=0, mode="paths", pool_all=True,
                    n=1200 if tier == "quick" else 20000, tag="paths")
    # the same local name with and without a namespace prefix, at several positions
    rc.random_trees(rep, "C14", tier, rc.C14_TAGS, pool=["a", "ns:a", "x:a", "b"], ops=20, remove=0, kinds=["add", "add", "add", "text"],
                    n=200 if tier == "quick" else 3000, pool_all=True, tag="prefixed")
    # chains deeper, and elements wider, than any counter or guard of a plausible implementation
    rc.boundary_sessions(rep, "C14", tier, rc.C14_TAGS)
    rep.add(distinct_nontrivial=rep.coverage.get("trees_rendered", 0), rule=RULE, exhaustive=False,
            checker_cmd="tlc MC_ElementApi.tla (per pool) ; tlc RenderTrace.tla (judging)")


def replay(obj, rep):
    rc.replay_render(obj, rep, rc.C14_TAGS)
