"""C08 — errors are reported faithfully and only when the input is at fault."""
from . import parser_common as pc

RULE = ("MC_Parser instance errors: every history with one fault of each kind (reader error, element name / attribute key / "
        "text not UTF-8, malformed or duplicated attribute, no element, input ending inside an element, stray end tag) "
        "injected at every point of every small document, for parse and extend; each is realised as bytes and the real "
        "verdict and error kind must be the ones the specification predicts. Random damaged documents: the verdict, error "
        "kind, byte position and Debug text predicted from an independent reader pass (SchemaTrace, mode C08). "
        "non-trivial = the history contains a fault")


def faulty(x):
    return any(e["fault"] != "none" or e["kind"] == "Err" for cl in x["calls"] for e in cl["events"]) or x["expect"]["st"] == "err"


def run(tier, rep):
    pc.check(rep, "C08", tier, ["errors", "text"], {"verdict", "error-kind"}, "C08",
             sessions=1500 if tier == "quick" else 20000, nontrivial=faulty, rule=RULE, damage=45,
             case_filter=lambda m: m.get("default_cfg", True),      # C08 is stated for a default-configured reader
             invariants=["TypeOK", "Verdict", "NoRootOnlyForParse", "Total"])
    rep.assumptions += ["the expected verdict is computed from the events a second, default-configured quick_xml::Reader "
                        "reports for the same bytes (harness/src/events.rs), not from the library",
                        "extending with a document whose root has a different name is Ok (none of C08's error conditions)"]


def replay(obj, rep):
    from . import replays
    replays.rerun(obj, rep, {"verdict", "error-kind"}, "C08")
