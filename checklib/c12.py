"""C12 — the command-line program is the library plus a header, and fails cleanly."""
import os
import subprocess
from . import common as c, render_common as rc, parser_common as pc

RULE = ("Cli.tla steps one run of the binary in program order; MC_Cli enumerates every combination of 6 input kinds (valid, "
        "malformed, element-less, non-UTF-8, missing, directory) x 5 output kinds (stdout, new file, existing file, path in a "
        "missing directory, path that is a directory) x 2 parsers x derive strings x 2 sorts and checks the sentences of C12 in "
        "every state; each behaviour is executed with the real binary (built from /repo) under strace: exit status, stdout bytes, "
        "stderr non-empty and output-file bytes must be the predicted ones (the expected bytes are header + the library's "
        "rendering for the options the specification derives from the arguments) and the system-call sequence must be a "
        "behaviour of CliTrace. non-trivial = behaviours with a fault or an output file")

CLI_BIN = os.path.join(c.HARNESS_DIR, "target", "cli", "release", "xml_schema_generator")


def build_cli():
    p = subprocess.run(["cargo", "build", "--release", "--offline", "--quiet", "--manifest-path", "/repo/Cargo.toml", "--bin",
                        "xml_schema_generator", "--target-dir", os.path.join(c.HARNESS_DIR, "target", "cli")],
                       stdout=subprocess.PIPE, stderr=subprocess.STDOUT, text=True, env=dict(os.environ, CARGO_NET_OFFLINE="true"))
    if p.returncode != 0:
        raise c.ToolError("building the xml_schema_generator binary from /repo failed:\n" + p.stdout[-3000:])


def run(tier, rep):
    c.build_harness()
    build_cli()
    derives = (["", "Debug", "Serialize, Deserialize", " Debug ", "Serialize,Deserialize", "{}"] if tier == "quick" else
               ["", "Debug", "Serialize, Deserialize", " Debug ", "Serialize,Deserialize", "Clone, PartialEq", "a b", "Debug,", "A,B", "{}", "%s"])
    cfg = c.cfg_text(constants=dict(Emit=True), invariants=["InvC12", "EmitCase"], properties=["Terminates"])
    cases = os.path.join(c.OUT, "cases", "C12.ndjson")
    r = c.run_tlc("MC_Cli", cfg, "C12-mc", defs={"Derives": "{" + ",".join(rc.tla_str(x) for x in derives) + "}"},
                  coverage=True, timeout=300, workers=4, replay_to=cases)
    if r.violated:
        rep.violation({"kind": "model", "module": "MC_Cli", "invariant": r.violated, "trace": r.error_text},
                      "the specification of the CLI violates %s" % r.violated)
    c.require_coverage(r, ["Init", "Next"], "MC_Cli")
    rep.add(states=r.distinct, transitions=r.generated, exhaustive=True, checker_cmd=r.cmd)
    rounds = 1
    docs_arg = []
    if tier == "thorough":
        # cross the behaviours with TLC-enumerated documents as the valid input
        pr, pcases = pc.run_instance("C12", "text", "quick", invariants=["TypeOK"])
        docs = os.path.join(c.OUT, "cases", "C12.docs.ndjson")
        c.harness(["cases-docs", "--cases", pcases, "--out", docs, "--max", 400])
        docs_arg = ["--docs", docs]
        os.remove(pcases)
        rounds = 4
    total = 0
    accepted = 0
    for k in range(rounds):
        mm = os.path.join(c.OUT, "cases", "C12.mm.ndjson")
        trace = os.path.join(c.OUT, "traces", "C12.ndjson")
        s = c.harness(["cli-replay", "--cases", cases, "--bin", CLI_BIN, "--work", os.path.join(c.OUT, "cli"), "--trace", trace,
                       "--mismatches", mm] + docs_arg, timeout=1800)
        if s["cases"] != r.replay_count:
            raise c.ToolError("C12: %d behaviours printed, %d executed" % (r.replay_count, s["cases"]))
        total += s["runs"]
        for m in c.read_ndjson(mm):
            rep.violation(m, "%s %s: expected %s, the binary gave %s" % (m["case"]["input"], m["case"]["out"], m["expected"], m["actual"]))
        acc, rej, st = c.validate_trace("CliTrace", trace, "C12-trace", cfg=c.cfg_text(postcondition="Accepted", invariants=["Inv"]))
        accepted += acc
        for x in rej:
            rep.violation({"kind": "cli-trace", "run": x.get("run"), "rejected_line": x.get("line"), "event": x.get("event"),
                           "invariant": x.get("invariant")},
                          "the system calls of the run %s are not a behaviour of the specification (at %s)" % (
                              str((x.get("run") or [{}])[0])[:200], x.get("event")))
        if docs_arg:
            # rotate the documents for the next round
            lines = open(docs_arg[1]).read().splitlines()
            open(docs_arg[1], "w").write("\n".join(lines[97:] + lines[:97]) + "\n")
    allc = c.read_ndjson(cases)
    rep.add(evaluations=total, distinct_nontrivial=sum(1 for x in allc if x["exit"] == 1 or x["out"] != "stdout"),
            traces_validated_against_impl=accepted, rule=RULE,
            samples=[{k: x[k] for k in ("input", "out", "args", "exit", "stdout", "stderr", "file")} for x in allc[:3]])
    rep.assumptions += ["permission faults are not used (the checks run as root); clap's own usage errors are out of scope",
                        "stderr is compared for non-emptiness only", "strace -f observes openat / write / exit_group of the unmodified binary"]


def replay(obj, rep):
    c.build_harness()
    build_cli()
    case = obj.get("case")
    if not case:
        c.log(str(obj)[:2000])
        rep.add(evaluations=1, distinct_nontrivial=1, samples=[str(obj)[:300]], states=1, transitions=1, traces_validated_against_impl=0)
        return
    cases = os.path.join(c.OUT, "cases", "C12.replay.ndjson")
    c.write_ndjson(cases, [case])
    mm = os.path.join(c.OUT, "cases", "C12.replay.mm.ndjson")
    c.harness(["cli-replay", "--cases", cases, "--bin", CLI_BIN, "--work", os.path.join(c.OUT, "cli"), "--mismatches", mm])
    for m in c.read_ndjson(mm):
        rep.violation(m, "%s %s: expected %s, the binary gave %s" % (m["case"]["input"], m["case"]["out"], m["expected"], m["actual"]))
    rep.add(evaluations=1, distinct_nontrivial=1, samples=[case], states=1, transitions=1, traces_validated_against_impl=1)
