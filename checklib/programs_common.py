"""C02 / C13: generated programs compiled by rustc and executed; judged by ProgramTrace.tla."""
import json
import os
import re
import subprocess
import time
from . import common as c, parser_common as pc

GENPROG = os.path.join(c.HARNESS_DIR, "genprog")
NAME_CLASSES = {"DUP_STRUCT", "RESERVED", "SHADOW", "EMPTY_NAME", "ILLEGAL_FIELD", "ILLEGAL_STRUCT", "DUP_FIELD"}


SPLIT_TEXT = re.compile(r"(?:[^<>]|\]\]>)(?:<\?.*?\?>)+(?:[^<]|<!\[CDATA\[)", re.S)


def split_text_failure(doc_text, err):
    """KF-C13-SPLITTEXT: character data of one element split by a processing instruction, and the deserializer says so"""
    m = re.search(r"<[A-Za-z_]", doc_text or "")
    body = doc_text[m.start():] if m else ""
    return "found Characters(" in (err or "") and bool(SPLIT_TEXT.search(body))


def cargo_build():
    p = subprocess.run(["cargo", "build", "--offline", "--message-format=short"], cwd=GENPROG, stdout=subprocess.PIPE,
                       stderr=subprocess.STDOUT, text=True, env=dict(os.environ, CARGO_NET_OFFLINE="true"), timeout=3000)
    failing = {}
    for line in p.stdout.splitlines():
        m = re.match(r"^src/case_(\d+)\.rs:\d+:\d+: error(?:\[\w+\])?: (.*)$", line)
        if m:
            failing.setdefault(int(m.group(1)), m.group(2))
    return p.returncode == 0, failing, p.stdout


def run_batch(rep, pid, preset, cases, random_n, max_cases, batch, shapes=0, boundary=0, hints=0):
    """one generated crate: generate, compile (dropping failing modules and rebuilding), run, judge"""
    meta = os.path.join(c.OUT, "cases", "%s.meta.%d.ndjson" % (pid, batch))
    args = ["programs-gen", "--dir", GENPROG, "--preset", preset, "--random", random_n, "--seed", c.seed() + batch,
            "--meta", meta, "--max-cases", max_cases, "--shapes", shapes, "--boundary", boundary, "--hints", hints]
    if cases:
        args += ["--cases", cases]
    c.harness(args)
    failing = {}
    t0 = time.time()
    for attempt in range(4):
        ok, bad, out = cargo_build()
        if ok:
            break
        if not bad:
            raise c.ToolError("the generated crate does not build and no case file is blamed:\n" + out[-3000:])
        failing.update(bad)
        c.harness(args + ["--skip", ",".join(str(i) for i in sorted(failing))])
    else:
        raise c.ToolError("the generated crate still does not build after dropping the failing programs")
    build_s = time.time() - t0
    p = subprocess.run([os.path.join(GENPROG, "target", "debug", "genprog")], stdout=subprocess.PIPE, stderr=subprocess.PIPE,
                       text=True, timeout=600)
    if p.returncode != 0:
        raise c.ToolError("the generated programs exited with %s: %s" % (p.returncode, p.stderr[-1500:]))
    runs = {}
    for line in p.stdout.splitlines():
        f = line.split("\t")
        if f[0] != "RESULT":
            continue
        runs.setdefault(int(f[1]), []).append({"doc": int(f[2]) + 1, "a": f[3] == "true", "b": f[4] == "true", "c": f[5] == "true",
                                               "missing_attr": int(f[6]), "missing_text": int(f[7]), "first_missing": f[8], "err": f[9]})
    metas = c.read_ndjson(meta)
    trace = os.path.join(c.OUT, "traces", "%s.programs.%d.ndjson" % (pid, batch))
    events = []
    for m in metas:
        events.append({"ev": "Program", "id": m["id"], "preset": m["preset"], "tree": m["tree"], "opts": m["opts"],
                       "docs": [{"events": d["events"]} for d in m["docs"]], "compiled": m["id"] not in failing,
                       "runs": [{k: r[k] for k in ("doc", "a", "b", "c", "missing_attr", "missing_text")} for r in runs.get(m["id"], [])]})
    c.write_ndjson(trace, events)
    n, infos, st = c.judge_trace("ProgramTrace", trace, "%s-programs-%d" % (pid, batch))
    by_id = {m["id"]: m for m in metas}
    indomain = 0
    seen = set()
    compared = disagreements = 0
    for i in infos:
        m = by_id[i["id"]]
        if i.get("count"):
            indomain += 1
            continue
        if "compared" in i:
            # the contract model (Deser.tla) against the real compiler + deserializer: a disagreement is about the model
            compared += i["compared"]
            if i["disagreements"]:
                disagreements += i["disagreements"]
                if disagreements <= 3:
                    c.log("NOTE property=%s: Deser.tla predicts %s for document %s of %s, the real deserializer did otherwise" % (
                        pid, i["first"].get("predicted"), i["first"].get("doc"), " + ".join(d["text"] for d in m["docs"])[:200]))
            continue
        if i["id"] in seen:
            continue
        seen.add(i["id"])
        if not i["indomain"]:
            continue
        tags = set(i["tags"])
        docs = [d["text"] for d in m["docs"]]
        detail = {"kind": "program", "preset": preset, "tags": sorted(tags), "docs": [{"text": d["text"], "hex": d["hex"]} for d in m["docs"]],
                  "rendered": m["rendered"], "rustc": failing.get(i["id"]), "runs": runs.get(i["id"])}
        # every tag must be explained by a listed finding, one by one; whatever is left is a violation
        remaining = set(tags)
        explained = []
        if tags == {"COMPILE"} and set(i["modeltags"]) & NAME_CLASSES:
            f = rep.match_finding("COMPILE/" + sorted(set(i["modeltags"]) & NAME_CLASSES)[0]) or rep.match_finding("COMPILE/NAMES")
            if f:
                explained.append(f)
                remaining.clear()
        if preset == "serde_xml_rs" and "DESER" in remaining:
            bad = [r for r in runs.get(i["id"], []) if not (r["a"] and r["c"])]
            if bad and all(split_text_failure(m["docs"][r["doc"] - 1]["text"], r["err"]) for r in bad):
                f = rep.match_finding("DESER/SPLIT_TEXT")
                if f:
                    explained.append(f)
                    remaining.discard("DESER")
        if preset == "serde_xml_rs" and "DROPPED_TEXT" in remaining and i.get("textfield"):
            f = rep.match_finding("DROPPED_TEXT/TEXT_ID")
            if f:
                explained.append(f)
                remaining.discard("DROPPED_TEXT")
        if explained and not remaining:
            for f in explained:
                rep.known_finding(f, "%s: %s (e.g. %s)" % (",".join(sorted(tags)), f.get("what_fails", ""), " + ".join(docs)[:300]))
        else:
            rep.violation(detail, "%s for %s: %s" % (",".join(sorted(tags)), " + ".join(docs)[:300],
                                                    failing.get(i["id"]) or str([r["err"] for r in runs.get(i["id"], []) if r["err"] != '"||"'][:1])))
    rep.add(programs=len(metas) * 3, evaluations=sum(len(v) for v in runs.values()) * 3, programs_in_domain=indomain,
            traces_validated_against_impl=n, disagreements_checked=compared, contract_model_disagreements=disagreements,
            failing_programs_classified=len(seen), trace_states=st)
    rep.add(**{"batch_%d" % batch: {"programs": len(metas), "compile_failures": len(failing), "build_s": round(build_s, 1), "in_domain": indomain}})
    return metas, indomain


def design_level(rep, pid, preset, tier):
    """parser -> renderer -> deserializer on the model (MC_Deser.tla): inside the domain of the property every history
    within the bounds deserializes, and nothing is left without a field"""
    from . import render_common as rc0
    inv = "DeserSoundQuickXml" if preset == "quick_xml" else "DeserSoundSerdeXmlRs"
    guard = "NeverRichC02" if preset == "quick_xml" else "NeverRichC13"
    k = dict(HashOrder=False, MaxDepth=3, MaxText=1, MaxIgn=0, TextKinds={"Text"}, IgnKinds=set(), Forms={"Start", "Empty"},
             Faults=False, EmptyDocs=False, Emit=False)
    s = rc0.tla_str
    a1 = "{<<>>, <<%s>>}" % s("p")
    a2 = "{<<>>, <<%s>>, <<%s, %s>>}" % (s("p"), s("q"), s("p"))
    if preset == "quick_xml":
        insts = [(["ns:a", "b"], a1, "<<3, 1>>")] if tier == "quick" else \
                [(["ns:a", "b"], a2, "<<3, 2>>"), (["type", "Item"], "{<<>>, <<%s>>}" % s("type"), "<<3, 2>>"), (["a-b", "p"], a1, "<<4, 1>>")]
    else:
        insts = [(["a", "b"], a1, "<<3, 1>>")] if tier == "quick" else \
                [(["a", "b"], a2, "<<3, 2>>"), (["type", "Item"], "{<<>>, <<%s>>}" % s("self"), "<<3, 2>>"), (["a-b", "a"], a1, "<<4, 1>>")]
    for n, (names, attrs, budget) in enumerate(insts):
        defs = {"Names": rc0.tla_pool(names), "RootName": s("r"), "AttrLists": attrs, "OccBudget": budget}
        r = c.run_tlc("MC_Deser", c.cfg_text(spec="MCSpec", constants=k, invariants=["TypeOK", inv]), "%s-deser-%d" % (pid, n),
                      coverage=False, timeout=2400, defs=defs)
        pc.model_violation(rep, r, "MC_Deser")
        rep.add(states=r.distinct, transitions=r.generated, pipeline_states=r.distinct)
        if n == 0:
            # vacuity guard: a history inside the domain whose structs have Option and Vec fields is reachable
            g = c.run_tlc("MC_Deser", c.cfg_text(spec="MCSpec", constants=k, invariants=[guard]), "%s-deser-guard" % pid,
                          coverage=False, timeout=600, defs=defs)
            if not g.violated:
                raise c.ToolError("MC_Deser: no history inside the domain with Option and Vec fields is reachable (vacuous instance)")


def check(rep, pid, preset, tier, rule):
    c.build_harness()
    design_level(rep, pid, preset, tier)
    batches = []
    # programs from the TLC-enumerated histories (children / attrs / text within small bounds) ...
    r, cases = pc.run_instance(pid, "attrs", "quick", invariants=["TypeOK", "Exact"])
    pc.model_violation(rep, r)
    rep.add(states=r.distinct, transitions=r.generated)
    total_in = 0
    metas, n_in = run_batch(rep, pid, preset, cases, 40 if tier == "quick" else 80, 30 if tier == "quick" else 120, 0,
                            shapes=48 if tier == "quick" else 1000, boundary=6 if tier == "quick" else 40, hints=24 if tier == "quick" else 343)
    total_in += n_in
    samples = [{"docs": [d["text"] for d in m["docs"]], "rendered": m["rendered"][:400]} for m in metas[:2]]
    os.remove(cases)
    if tier == "thorough":
        for b, inst in enumerate(["children", "text", "docs3"], start=1):
            r, cases = pc.run_instance(pid, inst, "quick", invariants=["TypeOK", "Exact"])
            rep.add(states=r.distinct, transitions=r.generated)
            metas, n_in = run_batch(rep, pid, preset, cases, 80, 120, b)
            total_in += n_in
            os.remove(cases)
    rep.add(distinct_nontrivial=total_in, samples=samples, rule=rule, exhaustive=False,
            checker_cmd="cargo build --offline (harness/genprog) ; target/debug/genprog ; tlc ProgramTrace.tla")


def replay(obj, rep, pid, preset):
    """re-generate the program for the documents of a replay file, compile, run, judge"""
    c.build_harness()
    cases = os.path.join(c.OUT, "cases", "%s.replay.docs.ndjson" % pid)
    # programs-gen takes parser cases; a replay file carries the documents as bytes, so they go in through --docs
    with open(cases, "w") as f:
        json.dump({"docs": obj["docs"]}, f)
    meta = os.path.join(c.OUT, "cases", "%s.replay.meta.ndjson" % pid)
    c.harness(["programs-gen", "--dir", GENPROG, "--preset", preset, "--session", cases, "--meta", meta])
    ok, bad, out = cargo_build()
    if not ok:
        rep.violation(dict(obj, rustc=list(bad.values())[:1]), "the generated program does not compile: %s" % (list(bad.values())[:1]))
    else:
        p = subprocess.run([os.path.join(GENPROG, "target", "debug", "genprog")], stdout=subprocess.PIPE, text=True, timeout=600)
        for line in p.stdout.splitlines():
            f = line.split("\t")
            if f[0] == "RESULT" and not (f[3] == "true" and f[5] == "true" and f[6] == "0" and f[7] == "0" and (f[4] == "true" or preset != "quick_xml")):
                kf = rep.match_finding("DESER/SPLIT_TEXT") if preset == "serde_xml_rs" else None
                if kf and f[3] == "false" and split_text_failure(obj["docs"][int(f[2])].get("text", ""), f[9]):
                    rep.known_finding(kf, "DESER: %s (%s)" % (kf.get("what_fails", ""), obj["docs"][int(f[2])].get("text", "")[:200]))
                    continue
                rep.violation(dict(obj, now=line), "document %s: %s" % (f[2], line))
    rep.add(programs=3, disagreements_checked=1, evaluations=3, distinct_nontrivial=3, samples=[[d["text"] for d in obj["docs"]]])
