"""C07 — no panic, abort or hang on arbitrary input bytes (exploration with a model-derived seed corpus)."""
import json
import os
import subprocess
import time
from . import common as c, parser_common as pc

RULE = ("seeds: byte serialisations of the TLC-enumerated histories of the MC_Parser instance errors (which include every fault "
        "kind at every point), the repository's test documents and random rich documents; mutations: truncation at every offset, "
        "byte flips / insertions / deletions / splices, invalid UTF-8, raw random bytes, nesting up to depth 200; every case runs "
        "under a random reader configuration (trim_text, expand_empty_elements, check_end_names, allow_unmatched_ends) through a "
        "chunked or small-capacity BufRead, optionally followed by an extend with a second (damaged) document; every Ok result is "
        "rendered with random options. A case is one byte input pair; distinct = distinct by content hash; all are non-trivial "
        "by construction except the 'valid seed' kind, which is subtracted")


def run_batch(args, limit):
    """returns (summary or None, how it ended)"""
    cmd = [c.HARNESS, "hostile"] + [str(a) for a in args]
    try:
        p = subprocess.run(cmd, stdout=subprocess.PIPE, stderr=subprocess.PIPE, text=True, timeout=limit)
    except subprocess.TimeoutExpired:
        return None, "timeout"
    if p.returncode != 0:
        return None, "exit %s" % p.returncode
    try:
        return json.loads(p.stdout.strip().splitlines()[-1]), "ok"
    except Exception:
        return None, "unparsable output"


def run(tier, rep):
    c.build_harness()
    r, cases = pc.run_instance("C07", "errors", tier, invariants=["TypeOK", "Total", "Verdict"])
    pc.model_violation(rep, r)
    # design-level half of "does not fail to terminate": under a fair environment every call returns (temporal property)
    k = dict(pc.BASE)
    k.update(pc.INSTANCES["errors"][0])
    k["Emit"] = False
    lr = c.run_tlc("MC_Parser", c.cfg_text(spec="MCFairSpec", constants=k, invariants=["TypeOK"], properties=["EveryCallReturns"]),
                   "C07-liveness", defs=pc.INSTANCES["errors"][1]["quick"], coverage=False, timeout=900, workers=4)
    pc.model_violation(rep, lr)
    rep.add(liveness_states=lr.distinct)
    per = 60000 if tier == "quick" else 400000
    batches = 4 if tier == "quick" else 14
    limit = 300 if tier == "quick" else 1500
    procs = []
    t0 = time.time()
    # batches run as parallel child processes, each with its own seed
    outs = []
    running = []
    for b in range(batches):
        mm = os.path.join(c.OUT, "cases", "C07.mm.%d.ndjson" % b)
        args = ["--seed", c.seed() * 1000 + b, "--n", per, "--cases", cases, "--mismatches", mm,
                "--trunc-seeds", 40 if b == 0 else 0, "--scale", 1 if b == 1 else 0]
        running.append((b, args, mm, subprocess.Popen([c.HARNESS, "hostile"] + [str(a) for a in args],
                                                     stdout=subprocess.PIPE, stderr=subprocess.PIPE, text=True)))
    total = distinct = 0
    kinds, outcomes = {}, {}
    for b, args, mm, p in running:
        try:
            out, err = p.communicate(timeout=max(10, limit - (time.time() - t0)))
            how = "ok" if p.returncode == 0 else "exit %s" % p.returncode
        except subprocess.TimeoutExpired:
            p.kill()
            out, how = "", "timeout"
        if how == "exit 3":
            # the harness's own watchdog named an input that did not finish within 20 s while all batches ran in parallel;
            # the batch is run again alone with a limit of 180 s per case: only an input that still does not finish is reported
            s2, how2 = run_batch(args + ["--case-limit", 180], limit * 3)
            if how2 == "exit 3":
                for m in c.read_ndjson(mm):
                    rep.violation(m, "no termination within 180 s (%s, %s) on %s" % (m.get("how"), m.get("feed"), [d["text"][:80] for d in m["docs"]]))
                continue
            if how2 != "ok" or not s2:
                raise c.ToolError("hostile batch %d: the watchdog fired, the re-run alone ended with %s" % (b, how2))
            c.log("NOTE property=C07: an input of batch %d needed more than 20 s under load and finished when the batch ran alone" % b)
            out = json.dumps(s2)
        if how != "ok":
            # find the culprit: rerun single-stepped, logging each input before it is executed
            cur = os.path.join(c.OUT, "cases", "C07.current.%d.json" % b)
            s2, how2 = run_batch(args + ["--log-each", cur], limit * 3)
            if how2 != "ok" and os.path.exists(cur):
                obj = json.load(open(cur))
                obj["class"] = "hang" if how2 == "timeout" else "abort (%s)" % how2
                rep.violation(obj, "the process %s on this input: %s" % ("did not terminate" if how2 == "timeout" else "died with " + how2,
                                                                        [d["text"][:80] for d in obj["docs"]]))
                continue
            if how in ("exit -9", "timeout") and how2 == "ok" and s2:
                # the batch is deterministic given its seed: killed from outside (memory pressure of a loaded machine, the
                # shared wall-clock limit) and completing when run again alone is not a behaviour of the code under test
                c.log("NOTE property=C07: hostile batch %d ended with %s under load and completed when run again alone; "
                      "the second run is counted" % (b, how))
                out = json.dumps(s2)
            else:
                raise c.ToolError("hostile batch %d ended with %s but could not be reproduced (%s)" % (b, how, how2))
        s = json.loads(out.strip().splitlines()[-1])
        total += s["cases"]
        distinct += s["distinct"]
        for k, v in s["kinds"].items():
            kinds[k] = kinds.get(k, 0) + v
        for k, v in s["outcomes"].items():
            outcomes[k] = outcomes.get(k, 0) + v
        for m in c.read_ndjson(mm):
            rep.violation(m, "panic (%s, %s) on %s" % (m["how"], m["feed"], [d["text"][:80] for d in m["docs"]]))
    rep.add(evaluations=total, distinct_nontrivial=max(0, distinct - kinds.get("valid seed", 0)), rule=RULE,
            samples=[{"kinds": kinds}, {"outcomes": outcomes}] + pc.sample_cases(cases, 2),
            states=r.distinct, transitions=r.generated, model_invariants=["Total", "Verdict", "EveryCallReturns (temporal, WF)"], batches=batches)
    # the trace monitor: hook steps of damaged documents under random reader configurations and chunk sizes must be steps
    # of Parser.tla up to the failure; a Panic line has no action in the specification
    trace = os.path.join(c.OUT, "traces", "C07-hooks.ndjson")
    t = c.harness(["parser-record", "--seed", c.seed(), "--n", 250 if tier == "quick" else 4000, "--damage", 50, "--hostile", 1, "--out", trace])
    cfg = c.cfg_text(spec="TSpec", constants=dict(HashOrder=False), invariants=["TypeOK", "StackWF"], postcondition="Accepted")
    acc, rej, st = c.validate_trace("ParserTrace", trace, "C07-hooks", cfg=cfg, timeout=1500)
    for x in rej:
        e = x.get("event") or {}
        if e.get("ev") == "Panic":
            docs = [b for b in (x.get("run") or []) if b.get("ev") == "Begin"]
            rep.violation({"kind": "hostile", "class": "panic", "how": "hook trace", "feed": "Whole",
                           "docs": [{"text": d.get("doc"), "hex": d.get("hex"), "cfg": {}} for d in docs]},
                          "panic while the hooks were recording: %s" % [d.get("doc", "")[:80] for d in docs])
        elif x.get("invariant"):
            rep.violation({"kind": "model", "module": "ParserTrace", "invariant": x["invariant"], "trace": x.get("error")},
                          "invariant %s fails along a recorded execution" % x["invariant"])
        else:
            c.log("NOTE property=C07: hook trace line %s is not a step of Parser.tla (mechanism drift): %s" % (x.get("line"), str(e)[:200]))
    rep.add(hook_events_validated=acc, hook_trace_calls=t["calls"])
    try:
        os.remove(cases)
    except OSError:
        pass
    rep.assumptions += ["absence of panics / aborts / hangs is observed by execution, not proved: the specification contributes the "
                        "totality of the design (invariant Total), the seed corpus and nothing about memory safety or slicing",
                        "wall-clock limit per batch %ds; a batch that exceeds it is re-run single-stepped to name the input" % limit]


def replay(obj, rep):
    c.build_harness()
    f = os.path.join(c.OUT, "cases", "C07.replay.json")
    json.dump(obj, open(f, "w"))
    try:
        p = subprocess.run([c.HARNESS, "hostile-replay", "--case", f], stdout=subprocess.PIPE, stderr=subprocess.PIPE, text=True, timeout=120)
        if p.returncode != 0:
            rep.violation(obj, "the process died with exit %s" % p.returncode)
        elif json.loads(p.stdout.strip().splitlines()[-1])["outcome"] == "panic":
            rep.violation(obj, "panic")
    except subprocess.TimeoutExpired:
        rep.violation(obj, "did not terminate within 120 s")
    rep.add(evaluations=8, distinct_nontrivial=2, samples=[[d["text"][:200] for d in obj.get("docs", [])]], rule="replay")
