"""Renderer-side machinery shared by C04 C05 C09 C10 C14 C16: instances of MC_ElementApi that enumerate trees by
public operations over adversarial name pools, replay through the real API / renderer, RenderTrace judging."""
import os
from collections import Counter
from . import common as c

C04_TAGS = {"TEMPLATE", "LAYOUT", "EMPTY_NAME", "RESERVED", "ILLEGAL_STRUCT", "DUP_STRUCT", "SHADOW", "ILLEGAL_FIELD", "DUP_FIELD",
            "UNRESOLVED", "USECOUNT"}
C14_TAGS = {"NAME_SHAPE", "NEEDLESS_QUALIFICATION", "FIRST_NOT_ROOT", "STRUCT_COUNT"}
C09_TAGS = {"FIELD_ORDER", "STRUCT_ORDER", "SORT_CHANGES_MORE", "STRUCT_COUNT"}
C10_TAGS = {"TEMPLATE", "DERIVE", "NEEDLESS_RENAME", "OPTION_CHANGES_SKELETON", "FIELDS_DIFFER", "STRUCT_COUNT"}
C16_TAGS = {"FIELDS_DIFFER", "STRUCT_COUNT"} | C04_TAGS

POOLS = {
    "plain": ["a", "b"],
    "case": ["Foo", "foo", "FOO"],
    "separators": ["a-b", "a.b", "a_b", "AB", "aB"],
    "concat": ["Total", "Price", "TotalPrice"],
    "shadow": ["String", "Option", "Vec", "string"],
    "keywords": ["self", "Self", "type", "Type", "crate", "loop"],
    "keywords2": ["as", "async", "dyn", "try", "yield", "fn"],
    "keywords3": ["in", "do", "box", "macro", "await", "abstract"],
    "keywords4": ["break", "const", "continue", "else", "enum", "extern"],
    "keywords5": ["false", "for", "if", "impl", "let", "match"],
    "keywords6": ["mod", "move", "mut", "pub", "ref", "return"],
    "keywords7": ["static", "struct", "super", "trait", "true", "unsafe"],
    "keywords8": ["use", "where", "while", "become", "final", "override"],
    "keywords9": ["priv", "typeof", "unsized", "virtual", "Match", "USE"],
    "digits": ["a1", "a_1", "A1", "a1b"],
    "attrsame": ["a", "b"],
    # a namespace prefix in front of a local name that starts with a digit (inside C04's domain: a letter comes first)
    "digitlocal": ["ns:1a", "type", "x"],
    "casefold": ["aB", "Ab", "ab"],
    "kwparent": ["type", "ns:a", "a-b", "loop"],
    # literals equal to the identifier the renderer derives for a keyword-named sibling: <parent>_<keyword>
    "kwsibling": ["item", "type", "item_type"],
    # (element, child) pairs that read the same once joined with "_": (a, b_type) and (a_b, type)
    "kwjoin": ["a", "a_b", "b_type", "type"],
    "caseruns": ["HTTPResponse", "httpResponse", "HttpResponse", "VendorRateID"],
    "prefixed": ["ns:a", "a", "x:a"],
    "nonascii": ["д", "Д", "é", "ß", "SS"],
    # characters whose case mapping changes the length or has a title-case form
    "nonascii2": ["İ", "ı", "ǅ", "ﬁx", "i"],
    # runs of capitals that are not (all) ASCII: case folding inside a word must not look at bytes
    "nonasciicaps": ["ЦЕНА", "Цена", "ÉÜ", "ДA", "AÖ"],
    # a two-byte letter at every byte offset from 1 to 7: slicing a name at a fixed byte position must not land inside it
    "offsets": ["aé", "abcé", "abcdeé", "abcdefgé"],
    # names that collide after separator replacement and end in a number one past u32 / u64
    # element names whose struct name is an entry of a derive list
    # two colons in one name: the local name starts after the first one
    "colons": ["a:b:c", "b:c", "a:b"],
    "derivenames": ["Clone", "debug", "Serialize", "Deserialize"],
    "bignum": ["n_4294967296", "n-4294967296", "n.18446744073709551616", "n_18446744073709551616"],
    "depth": ["a"],
    "underscore": ["_", "a", "a1"],
    "fields": ["text", "text_content", "type"],
    "fields2": ["p_attr", "r_type", "p"],
    "xmlnsish": ["a", "b"],
    "suffixlit": ["foo", "Foo", "FOO", "foo_2"],
    "suffixgap": ["foo", "Foo", "FOO", "foo_3"],
    "attrcase": ["ID", "Id", "item"],
}
ATTRS = {"colons": ["x:y:z", "y:z"], "bignum": ["n_4294967296", "n-4294967296"], "offsets": ["abé", "abcdé", "abcdeé", "abcdefé"], "kwjoin": ["type", "b_type"], "digitlocal": ["type", "n:2b"], "attrsame": ["a", "b"], "kwparent": ["type", "loop"], "kwsibling": ["item_type", "type"], "keywords2": ["type", "ref"], "keywords3": ["in", "use"], "keywords4": ["enum", "static"], "keywords5": ["for", "let"],
         "keywords6": ["mod", "pub"], "keywords7": ["struct", "true"], "keywords8": ["where", "while"], "keywords9": ["virtual", "yield"],
         "digits": ["a1", "A1"], "suffixlit": ["foo", "foo_attr"], "suffixgap": ["foo"], "xmlnsish": ["xml:lang", "x:p", "xmlns:n", "xmlnsx:q"], "attrcase": ["id", "Id"], "default": ["p"], "fields": ["text", "type"], "fields2": ["p", "type"], "prefixed": ["xmlns:n", "n:p"]}


def atom(ch):
    return ch if ord(ch) < 128 else "u%04x" % ord(ch)


def tla_str(s):
    return "<<" + ",".join('"%s"' % atom(ch) for ch in s) + ">>"


_chars_ok = False


def check_chars():
    """the generated character table of the specification (Chars.tla) against the real char functions of Rust"""
    global _chars_ok
    if _chars_ok:
        return
    r = c.harness(["chars-check", "--table", os.path.join(c.SPEC, "chars_table.json")])
    if r["bad"]:
        raise c.ToolError("Chars.tla disagrees with Rust's char functions on %s" % str(r["bad"])[:500])
    _chars_ok = True


def tla_pool(names):
    return "{" + ", ".join(tla_str(n) for n in names) + "}"


def run_pool(pid, pool, maxops, maxdepth, opkinds, emit=True, timeout=900, invariants=None):
    """TLC over MC_ElementApi for one name pool; returns (result, cases path)."""
    cfg = c.cfg_text(constants=dict(MaxOps=maxops, MaxDepth=maxdepth, OpKinds=set(opkinds), WithRender=True, Emit=emit),
                     invariants=invariants or ["Unique", "EffectOK", "RenderOK", "RenderJudge", "EmitCase"])
    cases = os.path.join(c.OUT, "cases", "%s-api-%s.ndjson" % (pid, pool))
    r = c.run_tlc("MC_ElementApi", cfg, "%s-api-%s" % (pid, pool), workers=8, coverage=False, timeout=timeout,
                  defs={"NamePool": tla_pool(POOLS[pool]), "AttrPool": tla_pool(ATTRS.get(pool, ATTRS["default"]))},
                  replay_to=cases if emit else None, xmx="8g")
    return r, cases


def thin(path, limit):
    """keep at most `limit` evenly spread lines of an ndjson file"""
    lines = open(path).read().splitlines()
    if len(lines) <= limit:
        return len(lines), len(lines)
    step = len(lines) / float(limit)
    keep = [lines[int(i * step)] for i in range(limit)]
    with open(path, "w") as f:
        f.write("\n".join(keep) + "\n")
    return len(lines), len(keep)


def classify(rep, infos, relevant, events, source):
    """INFO objects of RenderTrace -> violations / known findings / drift. Returns (judged tags counter, drift)."""
    drift = 0
    counter = Counter()
    for i in infos:
        tags = set(i.get("tags", [])) & relevant
        ev = events[i["line"] - 1] if events and i.get("line") else {}
        if i.get("drift"):
            drift += 1
        if not tags:
            continue
        for t in sorted(tags):
            counter[t] += 1
        f = None
        if not i.get("drift") and tags <= set(i.get("modeltags", [])) | {"STRUCT_COUNT"}:
            fs = [rep.match_finding(t) for t in sorted(tags)]
            if all(fs):
                f = fs[0]
        render = (ev.get("renders") or [{}])[i.get("render", 1) - 1] if ev else {}
        if f is not None:
            rep.known_finding(f, "%s: %s (e.g. %s)" % (",".join(sorted(tags)), f.get("what_fails", ""), short_tree(ev)))
        else:
            rep.violation({"kind": "render", "tags": sorted(tags), "drift": i.get("drift"), "ops": ev.get("ops"),
                           "docs": ev.get("docs"), "opts": render.get("opts"), "rendered": render.get("text"),
                           "error": render.get("error"), "source": source},
                          "%s%s on %s: %s" % (",".join(sorted(tags)),
                                              " (and the output deviates from the as-coded model)" if i.get("drift") else "",
                                              short_tree(ev), (render.get("text") or render.get("error") or "")[:200].replace("\n", "\\n")))
    return counter, drift


def unatom(seq):
    return "".join(chr(int(x[1:], 16)) if len(x) > 1 and x[0] == "u" else x for x in seq)


def short_tree(ev):
    if not ev:
        return "?"
    if ev.get("docs"):
        return " + ".join(ev["docs"])

    def walk(t):
        n = unatom(t["name"])
        kids = " ".join(walk(k["e"]) for k in t.get("ch", []))
        return "<%s%s>%s</%s>" % (n, "".join(" " + unatom(a["v"]) for a in t.get("attrs", [])), ("t" if t.get("text") else "") + kids, n)
    return walk(ev["tree"]) if "tree" in ev else "?"


def model_infos(rep, r, relevant, what):
    """design level: tags the as-coded model produces (printed by MC_ElementApi!RenderJudge)"""
    cnt = Counter()
    for i in r.printed:
        tags = set(i.get("tags", [])) & relevant
        for t in tags:
            cnt[t] += 1
        unknown = [t for t in tags if not rep.match_finding(t)]
        if unknown:
            rep.violation({"kind": "model", "module": "MC_ElementApi", "tags": sorted(tags), "ops": i.get("ops")},
                          "the as-coded renderer model violates %s on %s" % (",".join(sorted(unknown)), what))
        else:
            for t in tags:
                f = rep.match_finding(t)
                rep.known_finding(f, "%s at design level (model of the pinned renderer): %s" % (t, f.get("what_fails", "")))
    return cnt


def render_pools(rep, pid, tier, pools, relevant, opkinds=("add", "text", "optional", "multiple"), maxops=None,
                 maxdepth=2, limit=None, opts="two", extra_opts=0, api_trace=False):
    """enumerate trees per pool with TLC, replay through the real API, judge the real renderings with RenderTrace"""
    c.build_harness()
    check_chars()
    maxops = maxops or (3 if tier == "quick" else 4)
    limit = limit or (1500 if tier == "quick" else 20000)
    total_tags = Counter()
    for pool in pools:
        # the state space grows with (names x attribute lists x paths)^operations: the larger pools get one operation less
        big = len(POOLS[pool]) * (1 + len(ATTRS.get(pool, ATTRS["default"]))) > 8
        mo = maxops - 1 if (tier == "thorough" and big and maxops >= 4) else maxops
        r, cases = run_pool(pid, pool, mo, maxdepth, opkinds, timeout=1800)
        if r.violated:
            rep.violation({"kind": "model", "module": "MC_ElementApi", "invariant": r.violated, "trace": r.error_text},
                          "the specification violates %s (pool %s)" % (r.violated, pool))
        mt = model_infos(rep, r, relevant, "pool " + pool)
        rep.add(states=r.distinct, transitions=r.generated)
        total, kept = thin(cases, limit)
        rtrace = os.path.join(c.OUT, "traces", "%s-render-%s.ndjson" % (pid, pool))
        atrace = os.path.join(c.OUT, "traces", "%s-api-%s.ndjson" % (pid, pool))
        args = ["api-replay", "--cases", cases, "--render-trace", rtrace, "--opts", opts, "--extra-opts", extra_opts,
                "--seed", c.seed()]
        if api_trace:
            args += ["--trace", atrace]
        s = c.harness(args, timeout=1800)
        n, infos, st = c.judge_trace("RenderTrace", rtrace, "%s-rt-%s" % (pid, pool))
        events = c.read_ndjson(rtrace)
        cnt, drift = classify(rep, infos, relevant, events, "pool %s" % pool)
        total_tags.update(cnt)
        nrenders = sum(len(e["renders"]) for e in events)
        rep.add(evaluations=nrenders, traces_validated_against_impl=n, trees_enumerated=total, trees_rendered=kept,
                render_drift=drift + s.get("drift", 0), trace_states=st)
        rep.add(**{"pool_" + pool: {"states": r.distinct, "trees": total, "rendered": kept, "model_tags": dict(mt), "real_tags": dict(cnt)}})
        if api_trace:
            acc, rej, st2 = c.validate_trace("ApiTrace", atrace, "%s-at-%s" % (pid, pool), timeout=1800)
            for x in rej:
                rep.violation({"kind": "api", "run": x.get("run"), "rejected_line": x.get("line"), "event": x.get("event")},
                              "operation %s is not a step ApiTrace allows" % str((x.get("event") or {}).get("op"))[:200])
            rep.add(api_steps_validated=acc)
        if not rep.coverage.get("samples"):
            rep.add(samples=[{"ops": e.get("ops"), "rendered": e["renders"][0].get("text")} for e in events[-2:]])
        for p in (cases, rtrace, atrace):
            try:
                os.remove(p)
            except OSError:
                pass
    rep.add(tags_seen=dict(total_tags))


def random_trees(rep, pid, tier, relevant, n=None, ops=40, opts="two", extra_opts=0, pool=None, api_trace=False, remove=1,
                 kinds=None, root_bias=0, pool_all=False, tag="random", mode=None):
    """impl -> spec beyond the bounds: random operation sequences, judged by RenderTrace (and ApiTrace)"""
    n = n or (150 if tier == "quick" else 3000)
    rtrace = os.path.join(c.OUT, "traces", "%s-render-%s.ndjson" % (pid, tag))
    atrace = os.path.join(c.OUT, "traces", "%s-api-%s.ndjson" % (pid, tag))
    args = ["api-record", "--seed", c.seed(), "--n", n, "--ops", ops, "--render-trace", rtrace, "--opts", opts,
            "--extra-opts", extra_opts, "--remove", remove]
    if pool:
        args += ["--pool", ",".join(pool)]
    if kinds:
        args += ["--kinds", ",".join(kinds)]
    if mode:
        args += ["--mode", mode]
    if root_bias:
        args += ["--root-bias", root_bias]
    if pool_all:
        args += ["--pool-all", 1]
    if api_trace:
        args += ["--trace", atrace]
    s = c.harness(args)
    cnt_n, infos, st = c.judge_trace("RenderTrace", rtrace, "%s-rt-%s" % (pid, tag))
    events = c.read_ndjson(rtrace)
    cnt, drift = classify(rep, infos, relevant, events, "random operation sequences")
    rep.add(evaluations=sum(len(e["renders"]) for e in events), traces_validated_against_impl=cnt_n,
            random_trees=cnt_n, render_drift=drift, trace_states=st)
    if api_trace:
        acc, rej, st2 = c.validate_trace("ApiTrace", atrace, "%s-at-random" % pid, timeout=1800)
        for x in rej:
            rep.violation({"kind": "api", "run": x.get("run"), "rejected_line": x.get("line"), "event": x.get("event")},
                          "operation %s is not a step ApiTrace allows" % str((x.get("event") or {}).get("op"))[:200])
        rep.add(api_steps_validated=acc, traces_validated_against_impl=acc)
    return cnt


def boundary_sessions(rep, pid, tier, relevant, n=None):
    """scale instead of small scope: sessions built around boundary sizes (chains 15..300 levels deep, 15..300 distinct
    children / attributes / repetitions, names 15..300 characters long) are parsed by the real code and the rendering of
    the resulting tree is judged by RenderTrace"""
    n = n or (36 if tier == "quick" else 216)
    trace = os.path.join(c.OUT, "traces", "%s-boundary-schema.ndjson" % pid)
    rtrace = os.path.join(c.OUT, "traces", "%s-boundary-render.ndjson" % pid)
    c.harness(["schema-record", "--seed", c.seed(), "--n", n, "--boundary-only", 1, "--damage", 0, "--out", trace, "--render-trace", rtrace])
    cnt_n, infos, st = c.judge_trace("RenderTrace", rtrace, "%s-rt-boundary" % pid, timeout=1800)
    events = c.read_ndjson(rtrace)
    cnt, drift = classify(rep, infos, relevant, events, "boundary sessions")
    rep.add(evaluations=sum(len(e["renders"]) for e in events), traces_validated_against_impl=cnt_n, boundary_sessions=cnt_n,
            render_drift=drift, trace_states=st)
    os.remove(trace)
    return cnt


def parsed_sessions(rep, pid, tier, relevant, n=None):
    """the renderings of random parsed sessions (rich names, constants of the code as names, damaged documents the parser
    accepts) judged by RenderTrace with this property's tags"""
    n = n or (240 if tier == "quick" else 4000)
    trace = os.path.join(c.OUT, "traces", "%s-parsed-schema.ndjson" % pid)
    rtrace = os.path.join(c.OUT, "traces", "%s-parsed-render.ndjson" % pid)
    c.harness(["schema-record", "--seed", c.seed() + 17, "--n", n, "--damage", 25, "--cfgs", 1, "--out", trace, "--render-trace", rtrace])
    cnt_n, infos, st = c.judge_trace("RenderTrace", rtrace, "%s-rt-parsed" % pid, timeout=1800)
    events = c.read_ndjson(rtrace)
    cnt, drift = classify(rep, infos, relevant, events, "parsed sessions")
    rep.add(evaluations=sum(len(e["renders"]) for e in events), traces_validated_against_impl=cnt_n, parsed_sessions_rendered=cnt_n,
            render_drift=drift, trace_states=st)
    os.remove(trace)
    return cnt


def keyword_pools(tier):
    """all reserved words of convert_string are covered across the keyword pools; quick runs two of them per seed"""
    ks = ["keywords%d" % i for i in range(2, 10)]
    if tier == "thorough":
        return ks
    k = c.seed() % len(ks)
    return [ks[k], ks[(k + 3) % len(ks)]]


def c09_render(rep, tier):
    """C09, renderer half: field and struct order under both sort options"""
    render_pools(rep, "C09", tier, ["plain", "prefixed", "case", "attrcase", "casefold", "separators"], C09_TAGS, opts="all", limit=120 if tier == "quick" else 5000)
    random_trees(rep, "C09", tier, C09_TAGS, opts="all", remove=0, n=60 if tier == "quick" else 1500, ops=25)
    # scale instead of small scope: elements with many distinct children / attributes (positions >= 10)
    wide = ["k%s" % ch for ch in "abcdefghijklmnopqr"]
    random_trees(rep, "C09", tier, C09_TAGS, opts="two", remove=0, n=15 if tier == "quick" else 600, ops=80, pool=wide,
                 kinds=["add", "add", "add", "add", "optional", "text"], root_bias=70, pool_all=True, tag="wide")


def replay_render(obj, rep, relevant):
    """re-execute a `render` replay file: rebuild the tree by its operations, render, judge"""
    if obj.get("kind") == "model":
        c.log("design-level counterexample:\n" + str(obj)[:3000])
        rep.add(evaluations=1, distinct_nontrivial=1, samples=[obj.get("tags")], states=1, transitions=1, traces_validated_against_impl=0)
        return
    cases = os.path.join(c.OUT, "cases", "%s.replay.ops.ndjson" % rep.pid)
    c.write_ndjson(cases, [{"ops": obj["ops"]}])
    rtrace = os.path.join(c.OUT, "traces", "%s.replay.render.ndjson" % rep.pid)
    c.harness(["api-replay", "--cases", cases, "--render-trace", rtrace, "--opts", "all", "--extra-opts", 2, "--seed", c.seed()])
    n, infos, st = c.judge_trace("RenderTrace", rtrace, "%s-rt-replay" % rep.pid)
    events = c.read_ndjson(rtrace)
    classify(rep, infos, relevant, events, "replay")
    rep.add(evaluations=len(events), distinct_nontrivial=len(events), samples=[obj.get("ops")], states=st, transitions=st,
            traces_validated_against_impl=n)
