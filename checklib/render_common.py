"""Renderer-side machinery shared by C04 C05 C09 C10 C14 C16 (Render.tla instances, exact structural conformance)."""
from . import common as c


def c09_render(rep, tier):
    """C09, renderer half: filled in by the Render instances (see DESIGN.md §5 C09)."""
    return
