"""C10 — options change exactly what they name and nothing else."""
from . import render_common as rc

RULE = ("each enumerated / random tree is rendered under both presets, both sort orders and random derive / attribute prefix / "
        "text identifier strings; RenderTrace judges per render: derive verbatim on every struct or absent, rename exactly when "
        "the bound name differs, bindings = prefix+local / text identifier / local name (FIELDS_DIFFER); and across renders of "
        "the same tree: equal sort => equal skeleton (structs, identifiers, types, order). non-trivial = trees with an attribute or text")


def run(tier, rep):
    rc.render_pools(rep, "C10", tier, ["prefixed", "fields", "fields2", "xmlnsish", "attrcase", "kwsibling", "offsets", "derivenames", "colons"], rc.C10_TAGS, opts="all", extra_opts=2,
                    limit=250 if tier == "quick" else 4000)
    rc.random_trees(rep, "C10", tier, rc.C10_TAGS, opts="all", extra_opts=3, remove=0, n=150 if tier == "quick" else 1500, ops=25)
    rep.add(distinct_nontrivial=rep.coverage.get("trees_rendered", 0), rule=RULE, exhaustive=False,
            checker_cmd="tlc MC_ElementApi.tla (per pool) ; tlc RenderTrace.tla (judging)")
    rep.assumptions += ["derive / prefix / text identifier strings are drawn without '\"', '\\\\' and newlines",
                        "the CLI's mapping of --parser / --derive / --sort onto these options is checked by C12"]


def replay(obj, rep):
    rc.replay_render(obj, rep, rc.C10_TAGS)
