"""C02 — generated code compiles and quick_xml::de deserializes the source documents."""
from . import programs_common as pg

RULE = ("document sequences: TLC-enumerated histories (MC_Parser instances) and seeded random data-oriented sequences over rich "
        "names; each is parsed/extended by the real code, rendered with the quick-xml preset and written unchanged into a crate "
        "(plus a deny_unknown_fields copy and a Debug copy), compiled by rustc and run against each source document. "
        "ProgramTrace.tla decides domain membership (DomC02 on a DOM from an independent reader pass) and which clause failed. "
        "non-trivial = programs whose documents are inside the domain")


def run(tier, rep):
    pg.check(rep, "C02", "quick_xml", tier, RULE)
    rep.assumptions += ["rustc / serde_derive / quick-xml 0.37.5 as cached are the judges; quick-xml is built with the feature "
                        "overlapped-lists because the property does not require repeated children to be adjacent",
                        "value tokens have a fixed width so containment in the Debug output is unambiguous"]


def replay(obj, rep):
    pg.replay(obj, rep, "C02", "quick_xml")
