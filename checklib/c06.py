"""C06 — extending with further documents behaves like inferring from their union."""
from . import parser_common as pc

RULE = ("multi-document histories of the MC_Parser instances docs3 (3 documents incl. element-less ones) and children (2 "
        "documents): the schema after the last extend must be the one determined by the union of all occurrences, must be "
        "monotone w.r.t. the previous schema, unchanged by an element-less document; in addition every permutation of the "
        "documents, every document twice and element-less documents interleaved are executed on the real code and must give "
        "the same schema modulo field order. non-trivial = at least two calls and an Option or Vec in the schema")


def multi(x):
    return len(x["calls"]) >= 2 and pc.has_demotion_or_multi(x)


def multi_fault(x):
    return len(x["calls"]) >= 2 and x["expect"]["st"] == "err"


def run(tier, rep):
    stride = 4 if tier == "quick" else 1

    def relation(rep, inst, cases):
        pc.run_relation(rep, "c06-algebra", inst, cases, stride=stride if inst in ("children", "docs4") else 1,
                        extra=["--scale", 1 if inst == "docs3" else 0])

    # "a failed extension reports an error rather than a partial result": the fault histories whose fault is in an extend
    pc.check(rep, "C06", tier, ["errors"], {"verdict"}, None, 0, invariants=["TypeOK", "Verdict"],
             case_filter=lambda m: m.get("ncalls", 1) >= 2 and m.get("expected", {}).get("st") == "err" and m.get("default_cfg", True),
             nontrivial=multi_fault)
    pc.check(rep, "C06", tier, ["docs3", "docs4", "children"], {"schema", "unsound"}, "C06",
             sessions=500 if tier == "quick" else 6000, nontrivial=multi, rule=RULE,
             invariants=["TypeOK", "Exact", "Monotone", "NoOpOnEmptyDoc", "AlgebraInv", "ResultWF"],
             case_filter=lambda m: m.get("ncalls", 1) >= 2, relation=relation, damage=15)
    pc.mechanism_trace(rep, "C06", 100 if tier == "quick" else 2000)
    rep.assumptions += ["'schema' is compared as the statement lists it: fields by XML name, optionality, multiplicity, text "
                        "flags, nesting — not Rust identifiers or field order (those legitimately depend on document order)",
                        "an element-less document can only be supplied to extend (a parse of it is an error by C08)"]


def replay(obj, rep):
    from . import replays
    if obj.get("kind") == "rewrite":
        replays.rerun_relation(obj, rep, "c06-algebra")
    else:
        replays.rerun(obj, rep, {"schema", "unsound"}, "C06")
