"""C01 — generated structs admit every document they were inferred from."""
from . import parser_common as pc

RULE = ("every event history of the MC_Parser instances children / attrs / text / docs3 is a case (all sibling orders, "
        "attribute subsets per occurrence, text/CDATA/comment/PI placement, parse followed by 0-2 extends); the schema of the "
        "tree the real parser returns must admit (Schema!Admits) every document it was inferred from. "
        "non-trivial = the determined schema contains an Option or a Vec")


def run(tier, rep):
    pc.check(rep, "C01", tier, ["children", "attrs", "text", "docs3", "mixed"], {"unsound"}, "C01",
             sessions=400 if tier == "quick" else 6000, nontrivial=pc.has_demotion_or_multi, rule=RULE,
             invariants=["TypeOK", "Sound", "StackWF", "ResultWF"])
    # the composition parser -> renderer on the model: the *rendered* structs describe every consumed document
    from . import common as c
    from . import render_common as rc0
    k = dict(HashOrder=False, MaxDepth=3, MaxText=1, MaxIgn=0, TextKinds={"Text"}, IgnKinds=set(), Forms={"Start", "Empty"},
             Faults=False, EmptyDocs=False, Emit=False)
    for names, budget in ([(["ns:a", "b"], "<<3, 1>>")] if tier == "quick" else
                          [(["ns:a", "b"], "<<3, 2>>"), (["type", "Item"], "<<3, 2>>"), (["a-b", "a"], "<<4, 1>>")]):
        r = c.run_tlc("MC_Pipeline", c.cfg_text(spec="MCSpec", constants=k, invariants=["TypeOK", "Exact", "RenderedSound"]),
                      "C01-pipeline", coverage=False, timeout=1500,
                      defs={"Names": rc0.tla_pool(names), "RootName": rc0.tla_str("r"),
                            "AttrLists": "{<<>>, <<%s>>}" % rc0.tla_str("ns:p"), "OccBudget": budget})
        pc.model_violation(rep, r, "MC_Pipeline")
        rep.add(states=r.distinct, transitions=r.generated, pipeline_states=r.distinct)
    # renderer half: every attribute / child / text of the tree has a field bound to its XML (local) name with the
    # Option / Vec / String wrappers of the tree's flags (RenderProps!ReflectTags on the real output)
    from . import render_common as rc
    rc.render_pools(rep, "C01", tier, ["prefixed", "xmlnsish", "attrcase"], {"FIELDS_DIFFER", "STRUCT_COUNT"},
                    limit=200 if tier == "quick" else 5000)
    rep.assumptions += ["Admits is the property's own definition of 'describes'; that real deserializers agree with it is "
                        "decided by C02 / C13", "the statement on rendered structs is decomposed: Parser!Sound on the tree (bound by replay and "
                        "SchemaTrace) and RenderProps!ReflectTags on the rendering of the tree (bound by RenderTrace); MC_Pipeline.tla "
                        "checks the composition on the model"]


def replay(obj, rep):
    from . import replays
    replays.rerun(obj, rep, {"unsound"}, "C01")
