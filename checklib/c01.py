"""C01 — generated structs admit every document they were inferred from."""
from . import parser_common as pc

RULE = ("every event history of the MC_Parser instances children / attrs / text / docs3 is a case (all sibling orders, "
        "attribute subsets per occurrence, text/CDATA/comment/PI placement, parse followed by 0-2 extends); the schema of the "
        "tree the real parser returns must admit (Schema!Admits) every document it was inferred from. "
        "non-trivial = the determined schema contains an Option or a Vec")


def run(tier, rep):
    pc.check(rep, "C01", tier, ["children", "attrs", "text", "docs3"], {"unsound"}, "C01",
             sessions=400 if tier == "quick" else 6000, nontrivial=pc.has_demotion_or_multi, rule=RULE,
             invariants=["TypeOK", "Sound", "StackWF", "ResultWF"])
    rep.assumptions += ["Admits is the property's own definition of 'describes'; that real deserializers agree with it is "
                        "decided by C02 / C13", "the placement of Option / Vec / String and the rename bindings in the rendered "
                        "text are bound by the renderer conformance (C04, C10, C16)"]


def replay(obj, rep):
    from . import replays
    replays.rerun(obj, rep, {"unsound"}, "C01")
