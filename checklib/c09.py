"""C09 — field order follows the document, or the XML name when sorting is requested."""
from . import parser_common as pc

RULE = ("MC_Parser instances attrs (every ordered attribute list per occurrence, several new attributes at once, across "
        "documents) and children (children are permuted internally by every demotion): the stored attribute order and the "
        "child positions of the real tree must be the order of first appearance (Schema!TyOf is ordered). "
        "non-trivial = some attribute or child first appears in a later occurrence")


def late(x):
    e = x["expect"]
    if e["st"] != "ok":
        return False

    def walk(t):
        return any(a["opt"] for a in t["attrs"]) or any(k["opt"] or walk(k["ty"]) for k in t["kids"])
    return walk(e["proj"])


def run(tier, rep):
    pc.check(rep, "C09", tier, ["attrs", "children"], {"order"}, "C09",
             sessions=400 if tier == "quick" else 6000, nontrivial=late, rule=RULE,
             invariants=["TypeOK", "Exact", "StackWF", "ResultWF"])
    from . import render_common as rc
    rc.c09_render(rep, tier)


def replay(obj, rep):
    from . import replays
    replays.rerun(obj, rep, {"order"}, "C09")
