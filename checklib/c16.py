"""C16 — hand-built element trees keep unique children and render like parsed ones."""
from . import render_common as rc

RULE = ("every sequence of public construction operations (new, add child, mark optional, remove, merge attribute list, mark "
        "multiple, set text) up to the length bound over names {a,b} at paths of depth <= 1 is a behaviour of MC_ElementApi; "
        "each is executed on a real Element<String>; ApiTrace accepts a step only if child names stay unique and the operation "
        "had exactly the demanded effect at the addressed element; the final tree is rendered and judged (C04 tags, fields "
        "reflect the tree). Random sequences up to 60 operations over 6 names beyond the bound. "
        "non-trivial = sequences with at least one optional / remove / repeated add")


def run(tier, rep):
    rc.render_pools(rep, "C16", tier, ["plain"], rc.C16_TAGS, opkinds=("add", "optional", "remove", "merge", "multiple", "text"),
                    maxops=4 if tier == "quick" else 5, maxdepth=1, limit=3000 if tier == "quick" else 60000, api_trace=True)
    rc.render_pools(rep, "C16", tier, ["kwsibling", "suffixlit", "offsets"], rc.C16_TAGS, opkinds=("add", "optional", "text"),
                    maxops=4, maxdepth=0, limit=1500 if tier == "quick" else 60000)
    rc.random_trees(rep, "C16", tier, rc.C16_TAGS, ops=60, api_trace=True, n=300 if tier == "quick" else 3000)
    rep.add(distinct_nontrivial=rep.coverage.get("trees_rendered", 0), rule=RULE, exhaustive=True,
            checker_cmd="tlc MC_ElementApi.tla ; tlc ApiTrace.tla ; tlc RenderTrace.tla")
    rep.assumptions += ["attribute lists given to new / merge_attr are duplicate-free (the domain C15 gives the same operation)",
                        "children whose positions tie after remove + add are compared as a set (no order claim in C16)"]


def replay(obj, rep):
    if obj.get("kind") == "api":
        from . import common as c
        import os
        run_ = [e for e in (obj.get("run") or []) if e.get("ev") in ("Op", "Reset")]
        ops = [e["op"] for e in run_ if e.get("ev") == "Op"]
        cases = os.path.join(c.OUT, "cases", "C16.replay.ops.ndjson")
        c.write_ndjson(cases, [{"ops": ops}])
        at = os.path.join(c.OUT, "traces", "C16.replay.api.ndjson")
        c.harness(["api-replay", "--cases", cases, "--trace", at])
        acc, rej, st = c.validate_trace("ApiTrace", at, "C16-at-replay")
        for x in rej:
            rep.violation({"kind": "api", "run": x.get("run"), "rejected_line": x.get("line"), "event": x.get("event")},
                          "operation %s is not a step ApiTrace allows" % str((x.get("event") or {}).get("op"))[:200])
        rep.add(evaluations=len(ops), distinct_nontrivial=len(ops), samples=[ops], states=st, transitions=st,
                traces_validated_against_impl=acc)
    else:
        rc.replay_render(obj, rep, rc.C16_TAGS)
