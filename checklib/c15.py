"""C15 — public list merge: union, conjunction of necessity, stable order."""
import os
from . import common as c

BOUNDS = {
    "quick": dict(alphabet={1, 2, 3}, maxlen=3, record=3000, rec_alpha=16, rec_len=12),
    "thorough": dict(alphabet={1, 2, 3, 4}, maxlen=4, record=60000, rec_alpha=24, rec_len=16),
}


def apalache(cwd, module, args, timeout):
    """returns (output, 'NoError' | 'Error' | other)"""
    import subprocess, re, shutil
    outdir = os.path.join(c.OUT, "apalache")
    shutil.rmtree(outdir, ignore_errors=True)
    p = subprocess.run(["timeout", str(timeout), "apalache-mc", "check"] + args + ["--out-dir=" + outdir, module], cwd=cwd,
                       stdout=subprocess.PIPE, stderr=subprocess.STDOUT, text=True)
    m = re.search(r"The outcome is: (\w+)", p.stdout)
    shutil.rmtree(outdir, ignore_errors=True)
    return p.stdout, (m.group(1) if m else "exit %d" % p.returncode)


def run(tier, rep):
    b = BOUNDS[tier]
    c.build_harness()
    cases = os.path.join(c.OUT, "cases", "C15.ndjson")
    cfg = c.cfg_text(constants=dict(Alphabet=b["alphabet"], MaxLen=b["maxlen"], Emit=True),
                     invariants=["TypeOK", "InvC15", "InvAlgebra", "EmitCase"])
    r = c.run_tlc("MC_Necessity", cfg, "C15-mc", workers=8, replay_to=cases, timeout=1500)
    if r.violated:
        rep.violation({"kind": "model", "module": "MC_Necessity", "invariant": r.violated, "trace": r.error_text},
                      "the specification of merge_necessity itself violates %s" % r.violated)
    c.require_coverage(r, ["GrowVec", "GrowOther"], "MC_Necessity")
    rep.add(states=r.distinct, transitions=r.generated, exhaustive=True, checker_cmd=r.cmd,
            model_actions={k: v[1] for k, v in r.actions.items()})

    # beyond the enumeration: the same merge restated with bounded folds, and C15 restated index by index, checked
    # symbolically by Apalache for all pairs of duplicate-free lists of at most N items over the integers; TLC keeps the
    # restatement tied to Necessity.tla (equal merges, equal verdicts on the result and on perturbed results)
    apa = os.path.join(c.SPEC, "apa")
    cfg2 = c.cfg_text(constants=dict(Alphabet=b["alphabet"], MaxLen=b["maxlen"], Emit=False),
                      invariants=["InvSameMerge", "InvSameProperty", "SomeRejected"])
    r2 = c.run_tlc("MC_NecessityApa", cfg2, "C15-apa-equiv", workers=8, timeout=1500, coverage=False, libs=[apa])
    if r2.violated:
        raise c.ToolError("the Apalache restatement of C15 disagrees with Necessity.tla (%s):\n%s" % (r2.violated, (r2.error_text or "")[-1500:]))
    n = 4 if tier == "quick" else 6
    out, how = apalache(apa, "NecessityApa.tla", ["--cinit=ConstInit%d" % n, "--inv=InvC15", "--length=0"], 300 if tier == "quick" else 1500)
    if how == "Error":
        rep.violation({"kind": "model", "module": "NecessityApa", "invariant": "InvC15", "trace": out[-4000:]},
                      "the specification of merge_necessity violates C15 for some pair of lists of at most %d items (Apalache counterexample)" % n)
    elif how != "NoError":
        raise c.ToolError("apalache-mc ended with %s:\n%s" % (how, out[-1500:]))
    rep.add(symbolic_bound=n, symbolic_checker="apalache-mc check --cinit=ConstInit%d --inv=InvC15 --length=0 NecessityApa.tla" % n,
            restatement_states=r2.distinct)

    # spec -> impl: every enumerated pair through the real merge_necessity
    mm = os.path.join(c.OUT, "cases", "C15.mismatch.ndjson")
    s = c.harness(["merge-replay", "--cases", cases, "--mismatches", mm])
    if s["cases"] != r.replay_count or s["cases"] != r.distinct:
        raise c.ToolError("C15: %d states but %d replay cases / %d replayed" % (r.distinct, r.replay_count, s["cases"]))
    for m in c.read_ndjson(mm):
        if m.get("item_type"):
            rep.violation(m, "merge_necessity(%s, %s) is %s for i64 items but differs when the items are %s" % (
                short(m["vec"]), short(m["other"]), short(m["expected"]), m["item_type"]))
            continue
        rep.violation(m, "merge_necessity(%s, %s) = %s, C15 requires %s" % (
            short(m["vec"]), short(m["other"]), short(m["actual"]), short(m["expected"])))
    allc = c.read_ndjson(cases)
    nontrivial = sum(1 for x in allc if x["vec"] and x["other"])
    rep.add(evaluations=s["cases"], distinct_nontrivial=nontrivial,
            samples=[x for x in allc if len(x["vec"]) >= 2 and len(x["other"]) >= 2][:3])

    # impl -> spec: random pairs beyond the exhaustive bound, validated by MergeTrace
    trace = os.path.join(c.OUT, "traces", "C15.ndjson")
    t = c.harness(["merge-record", "--seed", c.seed(), "--n", b["record"], "--alphabet", b["rec_alpha"],
                   "--maxlen", b["rec_len"], "--out", trace])
    acc, rej, st = c.validate_trace("MergeTrace", trace, "C15-trace")
    for x in rej:
        e = x.get("event") or {}
        rep.violation({"kind": "merge", "vec": e.get("vec"), "other": e.get("other"), "actual": e.get("result"),
                       "trace_line": x.get("line"), "source": "trace validation (MergeTrace)"},
                      "recorded call is not a step of the specification: merge_necessity(%s, %s) = %s" % (
                          short(e.get("vec")), short(e.get("other")), short(e.get("result"))))
    # scale instead of small scope: long lists (any length-dependent fast path, index narrowing, capacity arithmetic)
    trace2 = os.path.join(c.OUT, "traces", "C15.long.ndjson")
    t2 = c.harness(["merge-record", "--seed", c.seed() + 1, "--n", 150 if tier == "quick" else 3000, "--alphabet", 300,
                    "--maxlen", 90 if tier == "quick" else 280, "--out", trace2])
    acc2, rej2, st2 = c.validate_trace("MergeTrace", trace2, "C15-trace-long", timeout=1500)
    for x in rej2:
        e = x.get("event") or {}
        rep.violation({"kind": "merge", "vec": e.get("vec"), "other": e.get("other"), "actual": e.get("result"), "panic": e.get("ev") == "Panic",
                       "trace_line": x.get("line"), "source": "trace validation (MergeTrace, long lists)"},
                      "recorded call on long lists (%d / %d items) is not a step of the specification%s" % (
                          len(e.get("vec") or []), len(e.get("other") or []), " (panic)" if e.get("ev") == "Panic" else ""))
    rep.add(traces_validated_against_impl=acc2, long_list_calls=t2["events"])
    rep.add(traces_validated_against_impl=acc, trace_events=t["events"], trace_states=st,
            rule="every pair of duplicate-free tagged lists over the alphabet up to the length bound is a state of "
                 "MC_Necessity (enumerated exhaustively, each replayed through the real merge_necessity); "
                 "non-trivial = both lists non-empty; beyond the bound: seeded random pairs validated by MergeTrace")
    rep.assumptions += ["items are compared with ==; the harness instantiates merge_necessity::<i64>",
                        "lists with repeated values are outside C15's domain and are not generated"]


def short(v):
    if v is None:
        return "?"
    return "[" + " ".join("%s%s" % (x["t"], x["v"]) for x in v) + "]"


def replay(obj, rep):
    c.build_harness()
    if obj.get("kind") != "merge":
        c.log("replay of kind %s: see the file" % obj.get("kind"))
        return
    cases = os.path.join(c.OUT, "cases", "C15.replay.ndjson")
    # expected result recomputed by the specification through a one-line trace is not needed: C15 determines it
    exp = obj.get("expected") or expected(obj["vec"], obj["other"])
    c.write_ndjson(cases, [{"vec": obj["vec"], "other": obj["other"], "merged": exp}])
    mm = os.path.join(c.OUT, "cases", "C15.replay.mismatch.ndjson")
    c.harness(["merge-replay", "--cases", cases, "--mismatches", mm])
    for m in c.read_ndjson(mm):
        if m.get("item_type"):
            rep.violation(m, "merge_necessity(%s, %s) is %s for i64 items but differs when the items are %s" % (
                short(m["vec"]), short(m["other"]), short(m["expected"]), m["item_type"]))
            continue
        rep.violation(m, "merge_necessity(%s, %s) = %s, C15 requires %s" % (
            short(m["vec"]), short(m["other"]), short(m["actual"]), short(m["expected"])))
    rep.add(evaluations=1, distinct_nontrivial=1, samples=[obj], states=1, transitions=1,
            traces_validated_against_impl=0)


def expected(a, b):
    """The unique result C15 allows for duplicate-free lists."""
    tb = {x["v"]: x["t"] for x in b}
    out = [{"t": "M" if x["t"] == "M" and tb.get(x["v"]) == "M" else "O", "v": x["v"]} for x in a]
    have = {x["v"] for x in a}
    out += [{"t": "O", "v": x["v"]} for x in b if x["v"] not in have]
    return out
