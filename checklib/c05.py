"""C05 — rendering is deterministic."""
import os
import subprocess
from . import common as c, parser_common as pc

RULE = ("the histories of the MC_Parser instance names (element names Foo / foo whose identifiers and struct names collide, so "
        "that the internal child order is observable in the output) and children are the inputs; the model with the repaired "
        "one-pass demotion has no nondeterministic choice (HashOrder = FALSE: ToOptionalChoices is a singleton, checked by the "
        "invariant Deterministic); on the real code every history is parsed and rendered (both presets, both sorts) repeatedly in "
        "one thread, in several threads and in fresh processes and all outputs must be byte-identical. "
        "In addition seeded random sessions over a pool of colliding names with attributes, text and up to three documents. "
        "non-trivial = histories in which some element closes with at least two children to demote")


def two_demotions(x):
    e = x["expect"]
    if e["st"] != "ok":
        return False

    def walk(t):
        return sum(1 for k in t["kids"] if k["opt"]) >= 2 or any(walk(k["ty"]) for k in t["kids"])
    return walk(e["proj"])


# "any process": the fresh processes also differ in environment and working directory
ENVS = [None,
        {"LANG": "tr_TR.UTF-8", "LC_ALL": "tr_TR.UTF-8", "TZ": "Pacific/Kiritimati", "RUST_BACKTRACE": "1", "COLUMNS": "20", "NO_COLOR": "1"},
        {"LANG": "C", "LC_ALL": "C", "TZ": "UTC", "RUST_LOG": "trace", "TERM": "dumb", "HOME": "/nonexistent", "USER": "nobody"}]
CWDS = [None, "/", None]


def run(tier, rep):
    c.build_harness()
    reps, threads, procs = (16, 4, 4) if tier == "quick" else (24, 8, 6)
    total = 0
    for inst, stride in (("names", 1), ("children", 8 if tier == "quick" else 2), ("attrs", 6 if tier == "quick" else 2)):
        r, cases = pc.run_instance("C05", inst, "quick", invariants=["TypeOK", "Exact", "Deterministic"])  # (the larger instances did not finish: both tiers enumerate the quick bounds, the thorough tier repeats more)
        pc.model_violation(rep, r)
        rep.add(states=r.distinct, transitions=r.generated)
        mm = os.path.join(c.OUT, "cases", "C05-%s.mm.ndjson" % inst)
        dig = os.path.join(c.OUT, "cases", "C05-%s.digests" % inst)
        nrandom = (600 if tier == "quick" else 2000) if inst == "names" else 0
        s = c.harness(["c05-repeat", "--cases", cases, "--reps", reps, "--threads", threads, "--stride", stride,
                       "--random", nrandom, "--seed", c.seed(), "--mismatches", mm, "--digests", dig + ".0"], timeout=3000)
        for m in c.read_ndjson(mm):
            rep.violation(m, "%s of %s renders differently: %s" % (m["how"], " + ".join(pc.doc_texts(m)), first_diff(m["first"], m["other"])))
        # fresh processes: the digests of all rendered outputs must agree
        base = open(dig + ".0").read()
        for p in range(1, procs + 1):
            c.harness(["c05-repeat", "--cases", cases, "--reps", 0, "--threads", 0, "--stride", stride,
                       "--random", nrandom, "--seed", c.seed(), "--digests", dig + ".%d" % p,
                       "--reverse", 1 if p == 2 else 0, "--shuffle", 0 if p <= 2 else c.seed() + p],
                      timeout=3000, env=ENVS[p % len(ENVS)], cwd=CWDS[p % len(CWDS)])
            other = open(dig + ".%d" % p).read()
            if other != base:
                idx = next(i for i, (a, b) in enumerate(zip(base.split("\n"), other.split("\n"))) if a != b)
                rep.violation({"kind": "repeat", "class": "c05", "how": "fresh process", "digest_index": idx, "instance": inst,
                               "seed": c.seed(), "random": nrandom, "stride": stride},
                              "a fresh process renders input %d of instance %s (cases then random sessions) differently" % (idx, inst))
            os.remove(dig + ".%d" % p)
        total += s["cases"]
        rep.add(evaluations=s["runs"] + s["cases"] * procs, distinct_nontrivial=pc.count_cases(cases, two_demotions) // stride,
                traces_validated_against_impl=s["cases"], samples=pc.sample_cases(cases, 2, two_demotions))
        rep.add(**{"instance_" + inst: {"states": r.distinct, "sessions": s["cases"], "runs": s["runs"], "processes": procs}})
        for f in (cases, mm, dig + ".0"):
            try:
                os.remove(f)
            except OSError:
                pass
    # renderer side: trees enumerated by TLC over pools in which the identifier disambiguation has work to do (colliding
    # names, literal name_N / name_attr / text_content forms, gaps in the suffix sequence), each rendered repeatedly
    from . import render_common as rc
    for pool in ("suffixgap", "suffixlit", "fields", "concat", "depth", "kwjoin"):
        if pool in ("concat", "depth"):
            # struct names across buckets: a name equal to the qualified name of another, ambiguous one
            r, tcases = rc.run_pool("C05", pool, 5 if pool == "concat" else 6, 2, ("add",), invariants=["Unique", "EmitCase"], timeout=300)
        else:
            r, tcases = rc.run_pool("C05", pool, 5 if pool == "suffixgap" else 4, 0, ("add", "text"), invariants=["Unique", "EmitCase"], timeout=300)
        rep.add(states=r.distinct, transitions=r.generated)
        total, kept = rc.thin(tcases, 4000 if tier == "quick" else 30000)
        mm = os.path.join(c.OUT, "cases", "C05-trees.mm.ndjson")
        dig = os.path.join(c.OUT, "cases", "C05-trees.digests")
        s = c.harness(["api-replay", "--cases", tcases, "--repeat", 12 if tier == "quick" else 24, "--mismatches", mm,
                       "--digests", dig + ".0"], timeout=3000)
        # fresh processes that build and render the same trees in the opposite order and in shuffled orders must produce
        # the same texts (two trees that disturb each other through process-wide state meet in either order)
        a0 = open(dig + ".0").read().split("\n")
        for k in range(1, 7):
            c.harness(["api-replay", "--cases", tcases, "--repeat", 1, "--reverse", 1 if k == 1 else 0, "--shuffle", 0 if k == 1 else c.seed() + k,
                       "--digests", dig + ".1"], timeout=3000, env=ENVS[k % len(ENVS)], cwd="/")
            a1 = open(dig + ".1").read().split("\n")
            if a0 != a1:
                idx = next((i for i, (x, y) in enumerate(zip(a0, a1)) if x != y), min(len(a0), len(a1)))
                import json as _json
                with open(tcases) as f:
                    ops = _json.loads(f.readlines()[idx])["ops"] if idx < min(len(a0), len(a1)) else []
                rep.violation({"kind": "repeat-tree", "class": "c05", "how": "fresh process, trees built in another order", "pool": pool, "ops": ops},
                              "a fresh process that renders the trees of pool %s in another order renders tree %d differently (%s)" % (
                                  pool, idx, [rc.unatom(o.get("name", [])) for o in ops]))
                break
        for f2 in (dig + ".0", dig + ".1"):
            os.remove(f2)
        for m in c.read_ndjson(mm):
            if m.get("kind") == "repeat-tree":
                rep.violation(m, "a tree built by %s renders differently on repetition: %s" % (
                    [rc.unatom(o.get("name", [])) for o in m["ops"]], first_diff(m["first"], m["other"])))
        rep.add(evaluations=kept * (12 if tier == "quick" else 24), traces_validated_against_impl=kept, trees_rendered_repeatedly=kept)
        os.remove(tcases)
    rep.add(rule=RULE, exhaustive=True, repetitions=reps, threads=threads, processes=procs)
    rep.assumptions += ["every HashMap::new() gets a fresh RandomState, so repetitions range over iteration orders; address / seed "
                        "independence is observed by repetition, not proved",
                        "with a 2-element map one repetition flips the iteration order with probability about 1/2"]


def first_diff(a, b):
    for x, y in zip(a.split("\n"), b.split("\n")):
        if x != y:
            return "%r vs %r" % (x, y)
    return "lengths differ"


def case_docs(cases, idx):
    import json
    with open(cases) as f:
        for i, line in enumerate(f):
            if i == idx:
                return json.loads(line)["calls"]
    return None


def replay(obj, rep):
    c.build_harness()
    if obj.get("kind") == "model":
        from . import replays
        return replays.rerun(obj, rep, set(), "C03")
    cases = os.path.join(c.OUT, "cases", "C05.replay.ndjson")
    if obj.get("docs") and isinstance(obj["docs"], list) and obj["docs"] and "hex" in obj["docs"][0]:
        c.write_ndjson(cases, [{"docs": obj["docs"], "expect": {"st": "ok"}}])
    else:
        c.write_ndjson(cases, [{"calls": obj["docs"], "expect": {"st": "ok"}}])
    mm = os.path.join(c.OUT, "cases", "C05.replay.mm.ndjson")
    digs = []
    s = c.harness(["c05-repeat", "--cases", cases, "--reps", 200, "--threads", 8, "--mismatches", mm, "--digests", mm + ".d0"])
    for m in c.read_ndjson(mm):
        rep.violation(m, "%s renders differently: %s" % (m["how"], first_diff(m["first"], m["other"])))
    base = open(mm + ".d0").read()
    for p in range(1, 17):
        c.harness(["c05-repeat", "--cases", cases, "--reps", 0, "--threads", 0, "--digests", mm + ".d"])
        if open(mm + ".d").read() != base:
            rep.violation(dict(obj, how="fresh process"), "a fresh process renders the documents differently")
            break
    rep.add(evaluations=s["runs"] + 16, distinct_nontrivial=2, samples=[obj.get("docs")], states=1, transitions=1,
            traces_validated_against_impl=1)
