------------------------------ MODULE MC_Deser ------------------------------
(***************************************************************************)
(* The whole pipeline on the model: parser -> renderer -> deserializer.    *)
(* The environment produces every document history within the bounds of    *)
(* MC_Parser; at every Ok return the struct definitions of the as-coded    *)
(* renderer model are handed, together with each consumed document, to the *)
(* contract model of the deserializers (Deser.tla).  C02 and C13 at design *)
(* level: inside the domain of the property deserialization succeeds (for  *)
(* quick-xml also with deny_unknown_fields) and no attribute value or text *)
(* content is left without a field.                                        *)
(*                                                                         *)
(* The parser model does not distinguish whitespace from data in character *)
(* data; each history is judged under both readings (every text node is    *)
(* data / every text node is whitespace).                                  *)
(*                                                                         *)
(* The three models are bound to the code separately: Parser by replay and *)
(* SchemaTrace, Render by RenderTrace (drift), Deser by ProgramTrace       *)
(* (prediction against rustc + the real deserializers).                    *)
(***************************************************************************)
EXTENDS MC_Parser, Deser

RECURSIVE WithData(_, _)
WithData(occ, d) ==
  [occ EXCEPT !.items = [j \in 1..Len(occ.items) |->
                           IF IsEl(occ.items[j]) THEN WithData(occ.items[j], d) ELSE [kind |-> "text", data |-> d]]]
RootsD(d) == [i \in 1..Len(Roots) |-> WithData(Roots[i], d)]

RootNameOk == LetterBeforeDigit(RootName) /\ NameCharsOk(RootName)
Perfect == Res(TRUE, TRUE, 0, 0)
ValueTextId == <<"$","v","a","l","u","e">>

Applicable == ReturnedOk /\ InDomain /\ Roots # <<>> /\ RootNameOk

\* C02: quick-xml preset, quick_xml::de
DeserSoundQuickXml ==
  Applicable =>
     \A d \in BOOLEAN :
        LET rs == RootsD(d)
            ss == ModelStructs(result.tree, QuickXmlDe)
        IN (PosC02(rs) /\ C04Tags(ss) = {}) => \A i \in 1..Len(rs) : DeserDoc(ss, rs[i], "quick_xml") = Perfect

\* C13: serde-xml-rs preset, serde_xml_rs.  As coded the preset binds character data to "$text" while serde-xml-rs
\* delivers it as "$value" (known finding KF-C13-TEXTID): deserialization succeeds and every attribute is held, but the
\* text of an element that got a struct is dropped - exactly then.  With the text identifier "$value" nothing is dropped.
C13Dom(rs) == PosC13(rs) /\ ~HasColon(RootName)
RECURSIVE AnyTextField(_)
AnyTextField(t) == (t.text /\ ~ContainsOnlyText(t)) \/ \E i \in 1..Len(t.ch) : ~ContainsOnlyText(t.ch[i].e) /\ AnyTextField(t.ch[i].e)
DeserSoundSerdeXmlRs ==
  Applicable =>
     \A d \in BOOLEAN :
        LET rs == RootsD(d)
            ss == ModelStructs(result.tree, SerdeXmlRs)
            fixed == ModelStructs(result.tree, [SerdeXmlRs EXCEPT !.textid = ValueTextId])
        IN (C13Dom(rs) /\ C04Tags(ss) = {}) =>
              /\ \A i \in 1..Len(rs) : LET r == DeserDoc(ss, rs[i], "serde_xml_rs") IN r.ok /\ r.missA = 0
              /\ (\E i \in 1..Len(rs) : DeserDoc(ss, rs[i], "serde_xml_rs").missT > 0)
                    <=> (d /\ (result.tree.text \/ AnyTextField(result.tree)))
              /\ \A i \in 1..Len(rs) : LET r == DeserDoc(fixed, rs[i], "serde_xml_rs") IN r.ok /\ r.missA = 0 /\ r.missT = 0

\* vacuity guards: the bounded instance reaches histories inside each domain whose struct set has Option, Vec and text fields
SomeOptVecText(ss) ==
  /\ \E k \in 1..Len(ss) : \E i \in 1..Len(ss[k].fields) : ss[k].fields[i].opt
  /\ \E k \in 1..Len(ss) : \E i \in 1..Len(ss[k].fields) : ss[k].fields[i].vec
NeverRichC02 == ~(Applicable /\ PosC02(RootsD(TRUE)) /\ SomeOptVecText(ModelStructs(result.tree, QuickXmlDe)))
NeverRichC13 == ~(Applicable /\ C13Dom(RootsD(TRUE)) /\ SomeOptVecText(ModelStructs(result.tree, SerdeXmlRs)))
=============================================================================
