----------------------------- MODULE RenderTrace -----------------------------
(***************************************************************************)
(* Trace validation of the real renderer (impl -> spec).  Each line is one *)
(* tree rendered by the real to_serde_struct under several option tuples:  *)
(*  {"ev":"Render","tree":T,"renders":[{"opts":O,"ok":b,"structs":S}]}    *)
(* T is the verif_view of the tree (names as character sequences), S the   *)
(* output parsed by the harness's strict template parser (ok = FALSE if a  *)
(* line does not fit the template).  A render may also carry "textchars",  *)
(* the output text itself as a character sequence.                         *)
(*                                                                         *)
(* Every line is judged, none is rejected: for each render the set of      *)
(* violated property clauses (RenderProps) and whether the output differs  *)
(* from the as-coded model (Render!RenderStructs) is printed as an INFO    *)
(* line; the check driver decides VIOLATION / KNOWN-FINDING / drift.       *)
(***************************************************************************)
EXTENDS RenderProps, Json, IOUtils

Rec == ndJsonDeserialize(IOEnv.TRACE)

VARIABLE l

Init == l = 1

\* A deep tree arrives as a pre-order list of elements with their depth ("flat": the JSON reader refuses documents
\* nested deeper than 255 levels); the element record is rebuilt from it.
RECURSIVE Build(_, _)
Build(fl, i) ==
  LET RECURSIVE Kids(_, _)
      Kids(j, acc) ==
        IF j <= Len(fl) /\ fl[j].d = fl[i].d + 1
        THEN LET b == Build(fl, j) IN Kids(b.nxt, Append(acc, [t |-> fl[j].t, e |-> b.e]))
        ELSE [ch |-> acc, nxt |-> j]
      k == Kids(i + 1, <<>>)
  IN [e |-> [name |-> fl[i].name, text |-> fl[i].text, sa |-> fl[i].sa, cnt |-> fl[i].cnt, pos |-> fl[i].pos,
             attrs |-> fl[i].attrs, ch |-> k.ch],
      nxt |-> k.nxt]
TreeOf(e) == IF "flat" \in DOMAIN e THEN Build(e.flat, 1).e ELSE e.tree

SameButSort(o1, o2) == o1.derive = o2.derive /\ o1.prefix = o2.prefix /\ o1.textid = o2.textid /\ o1.sort # o2.sort

\* the text itself, when the line carries it: it is exactly the layout of the records the template parser read from it
LayoutTags(r) == IF "textchars" \in DOMAIN r /\ r.textchars # LayoutStructs(r.structs) THEN {"LAYOUT"} ELSE {}

PerRender(tree, r) ==
  IF ~r.ok THEN {"TEMPLATE"}
  ELSE (IF DomC04(tree) THEN C04Tags(r.structs) ELSE {})
       \cup LayoutTags(r)
       \cup NameTags(tree, r.opts, r.structs)
       \cup ReflectTags(tree, r.opts, r.structs)
       \cup OrderTags(tree, r.opts, r.structs)
       \cup OptionTags(tree, r.opts, r.structs)

CrossTags(rs, i) ==
  (IF \E j \in 1..Len(rs) : rs[i].ok /\ rs[j].ok /\ rs[i].opts.sort = rs[j].opts.sort
                            /\ Skeleton(rs[i].structs) # Skeleton(rs[j].structs)
   THEN {"OPTION_CHANGES_SKELETON"} ELSE {})
  \cup (IF \E j \in 1..Len(rs) : rs[i].ok /\ rs[j].ok /\ SameButSort(rs[i].opts, rs[j].opts)
                                 /\ ~SameModuloSort(rs[i].structs, rs[j].structs)
        THEN {"SORT_CHANGES_MORE"} ELSE {})

Judge(e) ==
  LET tree == TreeOf(e) IN
  \A i \in 1..Len(e.renders) :
     LET r == e.renders[i]
         tags == PerRender(tree, r) \cup CrossTags(e.renders, i)
         drift == r.ok /\ r.structs # ModelStructs(tree, r.opts)
         modeltags == IF DomC04(tree) THEN C04Tags(ModelStructs(tree, r.opts)) ELSE {}
     IN IF tags = {} /\ ~drift THEN TRUE
        ELSE PrintT("INFO " \o ToJson([line |-> l, render |-> i, tags |-> tags, drift |-> drift, modeltags |-> modeltags]))

Next == l <= Len(Rec) /\ Rec[l].ev = "Render" /\ Judge(Rec[l]) /\ l' = l + 1

Spec == Init /\ [][Next]_l

Accepted ==
  LET matched == TLCGet("stats").diameter - 1
  IN IF matched = Len(Rec) THEN TRUE
     ELSE PrintT("TRACE-REJECTED " \o ToJson([line |-> matched + 1])) /\ FALSE
=============================================================================
