---------------------------- MODULE MC_Pipeline ----------------------------
(***************************************************************************)
(* The composition parser -> renderer in one instance (C01 as stated, on   *)
(* the *rendered* structs): element and attribute names are strings in the *)
(* sense of Strings.tla, the environment produces every document history   *)
(* within the bounds of MC_Parser, and at every Ok return the struct       *)
(* definitions the as-coded renderer emits must describe every consumed    *)
(* document: a field bound to the XML name of every attribute and child,   *)
(* non-Option fields present in every occurrence, non-Vec children at most *)
(* once, character data only where there is a text field or the position   *)
(* is typed String.                                                        *)
(***************************************************************************)
EXTENDS MC_Parser, RenderProps

\* no two sibling names / attribute names of one position differ only by namespace prefix (domain of C01)
RECURSIVE PrefixDomain(_)
PrefixDomain(occs) ==
  LET kids == {n \in UNION {{occs[o].items[j].name : j \in {k \in 1..Len(occs[o].items) : IsEl(occs[o].items[k])}} : o \in 1..Len(occs)} : TRUE}
      attrs == UNION {{occs[o].attrs[j] : j \in 1..Len(occs[o].attrs)} : o \in 1..Len(occs)}
  IN /\ \A x, y \in kids : RemoveNamespace(x) = RemoveNamespace(y) => x = y
     /\ \A x, y \in attrs : AttrBinding(x, QuickXmlDe) = AttrBinding(y, QuickXmlDe) => x = y
     /\ \A n \in kids : PrefixDomain(FlatKids(occs, n))

\* the struct that describes the occurrences of a position: index into ss
StructIdx(ss, name) == CHOOSE k \in 1..Len(ss) : ss[k].name = name

\* "describes", on rendered structs: s = the struct record of this position (or "String")
RECURSIVE Describes(_, _, _, _)
Describes(ss, k, occ, opts) ==
  LET fs == ss[k].fields
      FieldFor(bound) == {i \in 1..Len(fs) : Bound(fs[i]) = bound}
  IN /\ \A j \in 1..Len(occ.attrs) : FieldFor(AttrBinding(occ.attrs[j], opts)) # {}       \* every attribute has a field
     /\ \A j \in 1..Len(occ.items) :
           IsEl(occ.items[j]) =>
              LET c == occ.items[j]
                  F == FieldFor(RemoveNamespace(c.name))
              IN /\ F # {}                                                              \* every child has a field
                 /\ \A i \in F : IF fs[i].base = StringTy
                                 THEN c.attrs = <<>> /\ Elems(c.items) = <<>>             \* typed String: nothing but text
                                 ELSE Describes(ss, StructIdx(ss, fs[i].base), c, opts)
     /\ \A i \in 1..Len(fs) :
           LET isAttr == \E a \in {occ.attrs[j] : j \in 1..Len(occ.attrs)} : AttrBinding(a, opts) = Bound(fs[i])
               kidcount == Cardinality({j \in 1..Len(occ.items) : IsEl(occ.items[j]) /\ RemoveNamespace(occ.items[j].name) = Bound(fs[i])})
               isText == Bound(fs[i]) = opts.textid
           IN /\ (~fs[i].opt /\ ~isText) => (isAttr \/ kidcount >= 1)                    \* non-Option present
              /\ (~fs[i].vec /\ ~isAttr) => kidcount <= 1                               \* non-Vec at most once
     /\ HasText(occ) => FieldFor(opts.textid) # {}                                      \* character data only where typed

RenderedSound ==
  (ReturnedOk /\ InDomain /\ Roots # <<>> /\ PrefixDomain(Roots)) =>
     \A o \in {QuickXmlDe, SerdeXmlRs} :
        LET ss == ModelStructs(result.tree, o)
        IN (C04Tags(ss) = {}) => \A i \in 1..Len(Roots) : Describes(ss, 1, Roots[i], o)
=============================================================================
