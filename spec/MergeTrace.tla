----------------------------- MODULE MergeTrace -----------------------------
(***************************************************************************)
(* Trace validation for merge_necessity (C15), impl -> spec.               *)
(* Every line of the trace is one call of the real function:               *)
(*   {"ev":"Merge","vec":[..],"other":[..],"result":[..]}                  *)
(* The step is accepted iff the result is what Necessity!Merge computes    *)
(* and - when both lists are duplicate-free, the domain of C15 - the       *)
(* result satisfies the C15 predicates as stated.  A "Panic" line has no   *)
(* action in the specification, so it is never accepted.                   *)
(***************************************************************************)
EXTENDS Necessity, TLC, Json, IOUtils

Rec == ndJsonDeserialize(IOEnv.TRACE)

VARIABLE l

Init == l = 1

Accept(e) ==
  /\ e.ev = "Merge"
  /\ e.result = Merge(e.vec, e.other)
  /\ (DupFree(e.vec) /\ DupFree(e.other)) => C15(e.vec, e.other, e.result)

Next == l <= Len(Rec) /\ Accept(Rec[l]) /\ l' = l + 1

Spec == Init /\ [][Next]_l

\* acceptance: every line was consumed; otherwise report the first line that no action explains
Accepted ==
  LET matched == TLCGet("stats").diameter - 1
  IN IF matched = Len(Rec) THEN TRUE
     ELSE PrintT("TRACE-REJECTED " \o ToJson([line |-> matched + 1, event |-> Rec[matched + 1]])) /\ FALSE
=============================================================================
