----------------------------- MODULE MC_Parser -----------------------------
(***************************************************************************)
(* Model-checking instances of Parser.  The environment (the XML reader)   *)
(* produces every event sequence that a sequence of documents within the   *)
(* bounds can produce; the bounds are constants so that one module serves  *)
(* the instances "children", "attrs", "text", "docs3", "errors" and "hash".*)
(*                                                                         *)
(* hist records the calls made so far (operation, events, and the result   *)
(* the specification predicts) so that every returned state can be printed *)
(* as a replay case for the real code.                                     *)
(***************************************************************************)
EXTENDS Parser, Json

CONSTANTS
  Names,        \* element names that may occur below the root
  RootName,     \* name of the document element (may also be in Names, then it nests)
  AttrLists,    \* set of attribute-key sequences a start tag may carry
  MaxDepth,     \* maximal element nesting depth (the document element is depth 1)
  OccBudget,    \* sequence: maximal number of element occurrences of the 1st, 2nd, ... document;
                \* its length is the maximal number of calls (1 parse + extends)
  MaxText,      \* maximal number of Text/CData events per document
  MaxIgn,       \* maximal number of ignored events per document
  TextKinds,    \* subset of {"Text", "CData"}
  IgnKinds,     \* subset of IgnoredKinds
  Forms,        \* subset of {"Start", "Empty"}: how elements may be written
  Faults,       \* BOOLEAN: also generate faulty events, reader errors, unbalanced End/Eof
  EmptyDocs,    \* BOOLEAN: also generate element-less documents
  Emit          \* BOOLEAN: print replay cases

VARIABLES hist, nocc, ntext, nign, ncalls, nfault
mvars == <<hist, nocc, ntext, nign, ncalls, nfault>>
vars == <<pvars, mvars>>

MCInit == Init /\ hist = <<>> /\ nocc = 0 /\ ntext = 0 /\ nign = 0 /\ ncalls = 0 /\ nfault = 0

\* the projection of a result that is recorded with each call (the specification's prediction)
Predicted(r) ==
  IF r.st = "ok" THEN [st |-> "ok", tree |-> r.tree, proj |-> Proj(r.tree)]
  ELSE [st |-> "err", kind |-> r.kind]

Record(ev) == hist' = [hist EXCEPT ![Len(hist)].events = Append(@, ev)]

Begin ==
  /\ ncalls < Len(OccBudget)
  /\ \/ phase = "idle" /\ BeginParse
     \/ phase = "returned" /\ result.st = "ok" /\ BeginExtend
  /\ hist' = Append(hist, [op |-> op', events |-> <<>>])
  /\ ncalls' = ncalls + 1 /\ nocc' = 0 /\ ntext' = 0 /\ nign' = 0
  /\ UNCHANGED nfault

RootSeen == Elems(gstack[1].items) # <<>>
TopItems == gstack[Len(gstack)].items
LastIsText == TopItems # <<>> /\ TopItems[Len(TopItems)].kind = "text"

CanOpen(n) ==
  /\ nocc < OccBudget[ncalls] /\ Depth <= MaxDepth
  /\ IF Depth = 1 THEN n = RootName /\ ~RootSeen ELSE n \in Names

Open ==
  \E n \in Names \cup {RootName}, a \in AttrLists, k \in Forms :
     /\ CanOpen(n)
     /\ LET ev == Ev(k, n, a, "none") IN Step(ev) /\ Record(ev)
     /\ nocc' = nocc + 1 /\ UNCHANGED <<ntext, nign, ncalls, nfault>>

Close ==
  /\ Depth > 1
  /\ LET ev == Ev("End", "", <<>>, "none") IN Step(ev) /\ Record(ev)
  /\ UNCHANGED <<nocc, ntext, nign, ncalls, nfault>>

Eof ==
  /\ Depth = 1 /\ (RootSeen \/ EmptyDocs)
  /\ LET ev == Ev("Eof", "", <<>>, "none") IN Step(ev) /\ Record(ev)
  /\ UNCHANGED <<nocc, ntext, nign, ncalls, nfault>>

Txt ==
  \E k \in TextKinds :
     /\ ntext < MaxText /\ Depth > 1 /\ ~LastIsText
     /\ LET ev == Ev(k, "", <<>>, "none") IN Step(ev) /\ Record(ev)
     /\ ntext' = ntext + 1 /\ UNCHANGED <<nocc, nign, ncalls, nfault>>

Ign ==
  \E k \in IgnKinds :
     /\ nign < MaxIgn
     /\ LET ev == Ev(k, "", <<>>, "none") IN Step(ev) /\ Record(ev)
     /\ nign' = nign + 1 /\ UNCHANGED <<nocc, ntext, ncalls, nfault>>

\* the hostile part of the environment: one fault per history
Fault ==
  /\ Faults /\ nfault = 0 /\ Reading
  /\ \E ev \in {Ev("Err", "", <<>>, "none"), Ev("Text", "", <<>>, "utf8"), Ev("CData", "", <<>>, "utf8"),
                Ev("End", "", <<>>, "none"), Ev("Eof", "", <<>>, "none")}
          \cup {Ev(k, RootName, <<>>, f) : k \in {"Start", "Empty"}, f \in {"name", "attr", "key"}} :
        /\ (ev.kind = "End" => Depth = 1)        \* a stray end tag (reader configured not to check end names)
        /\ (ev.kind = "Eof" => Depth > 1)        \* input ends inside an element
        /\ (ev.kind = "Text" => ~LastIsText)     \* the reader never reports two adjacent Text events
        /\ Step(ev) /\ Record(ev)
  /\ nfault' = 1 /\ UNCHANGED <<nocc, ntext, nign, ncalls>>

\* after a premature Eof every open frame reads Eof again
Drain ==
  /\ Reading /\ atEof
  /\ LET ev == Ev("Eof", "", <<>>, "none") IN Step(ev) /\ Record(ev)
  /\ UNCHANGED <<nocc, ntext, nign, ncalls, nfault>>

Live == Reading /\ ~atEof
DoOpen == Live /\ Open
DoClose == Live /\ Close
DoEof == Live /\ Eof
DoText == Live /\ Txt
DoIgnored == Live /\ Ign

MCNext == Begin \/ DoOpen \/ DoClose \/ DoEof \/ DoText \/ DoIgnored \/ Fault \/ Drain

MCSpec == MCInit /\ [][MCNext]_vars

\* with a fair environment (the reader keeps delivering events; every input is finite) every call returns:
\* the design-level half of "does not fail to terminate" (C07)
MCFairSpec == MCSpec /\ WF_vars(MCNext)
EveryCallReturns == [](phase = "reading" => <>(phase = "returned"))

-----------------------------------------------------------------------------
\* design-level half of C07/C08: in every reading state every kind of event has a successor
\* (no state in which the machine is stuck), and the only terminal states are "returned"
Total ==
  Reading =>
     /\ ENABLED Step(Ev("Eof", "", <<>>, "none"))
     /\ (~atEof => /\ ENABLED Step(Ev("End", "", <<>>, "none"))
                   /\ ENABLED Step(Ev("Text", "", <<>>, "none"))
                   /\ ENABLED Step(Ev("Comment", "", <<>>, "none"))
                   /\ ENABLED Step(Ev("Err", "", <<>>, "none"))
                   /\ ENABLED Step(Ev("Start", RootName, <<>>, "none"))
                   /\ ENABLED Step(Ev("Empty", RootName, <<>>, "name")))

FormInsensitive == FormInsensitiveFor(Names \cup {RootName}, AttrLists)

\* C08 (design level): the verdict is Err iff the history of the call contains a fault / reader error
\* or it is a parse without any element
LastCall == hist[Len(hist)]
HasFaultEvent(c) == \E i \in 1..Len(c.events) : c.events[i].fault # "none" \/ c.events[i].kind = "Err"
HasElement(c) == \E i \in 1..Len(c.events) : c.events[i].kind \in {"Start", "Empty"} /\ c.events[i].fault = "none"
Verdict ==
  Returned =>
     LET c == LastCall
     IN /\ (result.st = "err") <=> (HasFaultEvent(c) \/ (c.op = "parse" /\ ~HasElement(c)))
        /\ (result.st = "err" /\ ~HasFaultEvent(c)) => result.kind = "Parsing"

\* C05 (design level): once the event is fixed the machine has no choice left - the list of demotions is
\* determined (with HashOrder = TRUE this fails as soon as two children are demoted at once)
Deterministic ==
  (Reading /\ Depth > 1) =>
     Cardinality(ToOptionalChoices(DemotionParent(stack[Len(stack) - 1], Top), Top.snap)) = 1

\* C06 on the reference itself: the schema the documents determine does not depend on their order, is
\* unchanged by supplying documents twice, and grows monotonically along every prefix
AlgebraInv ==
  (ReturnedOk /\ InDomain /\ Roots # <<>>) =>
     LET R == Roots
         n == Len(R)
     IN /\ \A p \in Perms(R) : SameModuloOrder(TyOf([i \in 1..n |-> R[p[i]]]), TyOf(R))
        /\ SameModuloOrder(TyOf(R \o R), TyOf(R))
        /\ \A k \in 1..n : Mono(TyOf(SubSeq(R, 1, k)), TyOf(R))

\* every returned state is a replay case: the calls with their events, and the predicted result of the last call
EmitCase ==
  (Emit /\ Returned) =>
     PrintT("REPLAY " \o ToJson([calls |-> hist, expect |-> Predicted(result),
                                 indomain |-> InDomain /\ nfault = 0,
                                 ty |-> IF ReturnedOk /\ InDomain /\ Roots # <<>> THEN TyOf(Roots) ELSE [none |-> TRUE]]))
=============================================================================
