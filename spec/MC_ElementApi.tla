--------------------------- MODULE MC_ElementApi ---------------------------
(***************************************************************************)
(* Model-checking instance for ElementApi (C16): every sequence of at most *)
(* MaxOps public operations over the name alphabet, at every path up to    *)
(* MaxDepth.  After every operation: unique child names everywhere, the    *)
(* effect the statement demands (Effect / OnlyAt) and - with Render = TRUE *)
(* - the rendering of the tree is well-formed and reflects the tree.       *)
(***************************************************************************)
EXTENDS ElementApi, RenderProps, Json

CONSTANTS
  NamePool,     \* element names (strings in the sense of Strings.tla)
  AttrPool,     \* attribute names
  MaxOps, MaxDepth,
  OpKinds,      \* subset of {"add","optional","remove","merge","multiple","text"}
  WithRender,   \* BOOLEAN: evaluate the renderer properties on every tree
  Emit

VARIABLES tree, ops, trees, lastop, before
vars == <<tree, ops, trees, lastop, before>>

NoTree == [name |-> <<>>, none |-> TRUE]

\* attribute lists for new elements: duplicate-free lists of length <= 2
AttrListsOf(pool) == {<<>>} \cup {<<a>> : a \in pool} \cup {p \in pool \X pool : p[1] # p[2]}
TaggedLists(pool) ==
  {<<>>} \cup {<<[t |-> t, v |-> a]>> : t \in {"M", "O"}, a \in pool}
         \cup {<<[t |-> t1, v |-> p[1]], [t |-> t2, v |-> p[2]]>> :
                  t1 \in {"M", "O"}, t2 \in {"M", "O"}, p \in {q \in pool \X pool : q[1] # q[2]}}

Init ==
  /\ \E n \in NamePool, a \in AttrListsOf(AttrPool) :
        /\ tree = New(n, a)
        /\ ops = <<[op |-> "new", name |-> n, attrs |-> a]>>
  /\ trees = <<tree>>
  /\ lastop = ops[1] /\ before = NoTree

Candidates ==
  LET paths == PathsOf(tree, MaxDepth)
  IN {[op |-> "add", path |-> p, name |-> n, attrs |-> a] : p \in paths, n \in NamePool, a \in {<<>>} \cup {<<x>> : x \in AttrPool}}
     \cup {[op |-> k, path |-> p, name |-> n] : k \in {"optional", "remove"}, p \in paths, n \in NamePool}
     \cup {[op |-> "merge", path |-> p, attrs |-> a] : p \in paths, a \in TaggedLists(AttrPool)}
     \cup {[op |-> k, path |-> p] : k \in {"multiple", "text"}, p \in paths}

Apply ==
  /\ Len(ops) < MaxOps
  /\ \E o \in Candidates :
        /\ o.op \in OpKinds
        /\ tree' = ApplyAt(tree, o.path, o)
        /\ ops' = Append(ops, o)
        /\ lastop' = o
  /\ trees' = Append(trees, tree')
  /\ before' = tree

Next == Apply
Spec == Init /\ [][Next]_vars

\* C16: child names under one parent stay unique
Unique == UniqueNames(tree)
\* C16: each operation has exactly the effect the statement demands, at the addressed element only
EffectOK == (lastop.op # "new") => OnlyAt(before, tree, lastop.path, lastop)
\* C16 / C04: rendering any tree built this way is well-formed and reflects the tree
RenderOK ==
  WithRender =>
     \A o \in {QuickXmlDe, [SerdeXmlRs EXCEPT !.sort = "XmlName"]} :
        LET ss == ModelStructs(tree, o)
        IN OptionTags(tree, o, ss) = {}

\* design level: which clauses of C04 / C14 / C09 / C16 the as-coded renderer violates on this tree (printed, not
\* rejected: the check driver matches them against known_findings.json)
RenderJudge ==
  WithRender =>
     LET ss == ModelStructs(tree, QuickXmlDe)
         tags == (IF DomC04(tree) THEN C04Tags(ss) ELSE {}) \cup NameTags(tree, QuickXmlDe, ss)
                 \cup OrderTags(tree, QuickXmlDe, ss) \cup ReflectTags(tree, QuickXmlDe, ss)
     IN IF tags = {} THEN TRUE ELSE PrintT("INFO " \o ToJson([tags |-> tags, ops |-> ops]))

EmitCase == Emit => PrintT("REPLAY " \o ToJson([ops |-> ops, trees |-> trees]))
=============================================================================
