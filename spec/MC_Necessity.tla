--------------------------- MODULE MC_Necessity ---------------------------
(***************************************************************************)
(* Model-checking instance for Necessity (property C15).                   *)
(* The state is a pair of duplicate-free tagged lists; the lists are grown *)
(* item by item (first vec, then other) so that every pair with at most    *)
(* MaxLen items per list over Alphabet is reached exactly once.  C15 is    *)
(* an invariant; with Emit = TRUE every state is also printed as a replay  *)
(* case (the pair and the merge result the specification predicts).        *)
(***************************************************************************)
EXTENDS Necessity, TLC, Json

CONSTANTS Alphabet, MaxLen, Emit

VARIABLES vec, other
vars == <<vec, other>>

Init == vec = <<>> /\ other = <<>>

GrowVec ==
  /\ other = <<>>
  /\ Len(vec) < MaxLen
  /\ \E v \in Alphabet \ Vals(vec), t \in {"M", "O"} :
        vec' = Append(vec, [t |-> t, v |-> v])
  /\ UNCHANGED other

GrowOther ==
  /\ Len(other) < MaxLen
  /\ \E v \in Alphabet \ Vals(other), t \in {"M", "O"} :
        other' = Append(other, [t |-> t, v |-> v])
  /\ UNCHANGED vec

Next == GrowVec \/ GrowOther

Spec == Init /\ [][Next]_vars

TypeOK == DupFree(vec) /\ DupFree(other)

InvC15 == C15(vec, other, Merge(vec, other))

\* Merge is idempotent in its second argument and has <<>> as a left/right unit up to demotion
InvAlgebra ==
  /\ Merge(Merge(vec, other), other) = Merge(vec, other)
  /\ ValSeq(Merge(vec, <<>>)) = ValSeq(vec)
  /\ ValSeq(Merge(<<>>, other)) = ValSeq(other)
  /\ \A k \in DOMAIN Merge(vec, <<>>) : Merge(vec, <<>>)[k].t = "O"

EmitCase ==
  Emit => PrintT("REPLAY " \o ToJson([vec |-> vec, other |-> other, merged |-> Merge(vec, other)]))
=============================================================================
