------------------------------- MODULE Schema -------------------------------
(***************************************************************************)
(* The declarative reference: what schema a sequence of documents          *)
(* *determines*, defined from a DOM of the inputs, with no counters, no    *)
(* snapshots and no event order other than first appearance.  The listed   *)
(* properties C01, C03, C06, C09, C11 are stated against these operators.  *)
(*                                                                         *)
(* DOM items:                                                              *)
(*   [kind |-> "el", name, attrs (sequence of names), items, form]         *)
(*   [kind |-> "text", cdata |-> BOOLEAN]                                  *)
(*   [kind |-> "ign", what |-> "Comment" | "Decl" | "PI" | "DocType"]      *)
(* A document is the sequence of its top-level items.                      *)
(*                                                                         *)
(* A type (the schema of one position) is a record                         *)
(*   [text, attrs |-> <<[n, opt]>>, kids |-> <<[n, opt, multi, ty]>>]      *)
(* attrs and kids in order of first appearance.                            *)
(***************************************************************************)
EXTENDS Naturals, Sequences, FiniteSets

El(n, attrs, items, form) == [kind |-> "el", name |-> n, attrs |-> attrs, items |-> items, form |-> form]
TextItem(cdata) == [kind |-> "text", cdata |-> cdata]
IgnItem(what) == [kind |-> "ign", what |-> what]

IsEl(it) == it.kind = "el"
Elems(items) == SelectSeq(items, IsEl)
HasText(occ) == \E j \in 1..Len(occ.items) : occ.items[j].kind = "text"
CountIn(occ, n) == Cardinality({j \in 1..Len(occ.items) : IsEl(occ.items[j]) /\ occ.items[j].name = n})
HasAttr(occ, a) == \E j \in 1..Len(occ.attrs) : occ.attrs[j] = a

\* all children named n of all occurrences, in document order
RECURSIVE FlatKids(_, _)
FlatKids(occs, n) ==
  IF occs = <<>> THEN <<>>
  ELSE SelectSeq(Head(occs).items, LAMBDA it : IsEl(it) /\ it.name = n) \o FlatKids(Tail(occs), n)

\* distinct values of a sequence in order of first appearance
RECURSIVE FirstSeen(_, _)
FirstSeen(s, acc) ==
  IF s = <<>> THEN acc
  ELSE FirstSeen(Tail(s), IF \E k \in 1..Len(acc) : acc[k] = Head(s) THEN acc ELSE Append(acc, Head(s)))

RECURSIVE AllChildNames(_)
AllChildNames(occs) ==
  IF occs = <<>> THEN <<>>
  ELSE LET es == Elems(Head(occs).items) IN [i \in 1..Len(es) |-> es[i].name] \o AllChildNames(Tail(occs))

RECURSIVE AllAttrNames(_)
AllAttrNames(occs) == IF occs = <<>> THEN <<>> ELSE Head(occs).attrs \o AllAttrNames(Tail(occs))

\* the type determined by all occurrences of one position (C03, as stated)
RECURSIVE TyOf(_)
TyOf(occs) ==
  LET korder == FirstSeen(AllChildNames(occs), <<>>)
      aorder == FirstSeen(AllAttrNames(occs), <<>>)
  IN [text |-> \E k \in 1..Len(occs) : HasText(occs[k]),
      attrs |-> [k \in 1..Len(aorder) |->
                   [n |-> aorder[k], opt |-> \E o \in 1..Len(occs) : ~HasAttr(occs[o], aorder[k])]],
      kids |-> [k \in 1..Len(korder) |->
                   LET n == korder[k]
                   IN [n |-> n,
                       opt |-> \E o \in 1..Len(occs) : CountIn(occs[o], n) = 0,
                       multi |-> \E o \in 1..Len(occs) : CountIn(occs[o], n) > 1,
                       ty |-> TyOf(FlatKids(occs, n))]]]

\* a position is typed String (no struct) iff it has text and neither attributes nor children
IsStringTy(ty) == ty.text /\ ty.attrs = <<>> /\ ty.kids = <<>>

-----------------------------------------------------------------------------
(* C01: the typing relation "ty describes occurrence occ"                  *)

KidIdx(ty, n) == LET I == {k \in 1..Len(ty.kids) : ty.kids[k].n = n} IN IF I = {} THEN 0 ELSE CHOOSE k \in I : TRUE
AttrIdx(ty, a) == LET I == {k \in 1..Len(ty.attrs) : ty.attrs[k].n = a} IN IF I = {} THEN 0 ELSE CHOOSE k \in I : TRUE

RECURSIVE Admits(_, _)
Admits(ty, occ) ==
  /\ \A j \in 1..Len(occ.attrs) : AttrIdx(ty, occ.attrs[j]) # 0          \* every attribute has a field
  /\ \A k \in 1..Len(ty.attrs) : ~ty.attrs[k].opt => HasAttr(occ, ty.attrs[k].n)   \* non-Option present
  /\ \A j \in 1..Len(occ.items) :
        IsEl(occ.items[j]) =>
          LET k == KidIdx(ty, occ.items[j].name)
          IN k # 0 /\ Admits(ty.kids[k].ty, occ.items[j])                 \* every child has a field
  /\ \A k \in 1..Len(ty.kids) :
        /\ ~ty.kids[k].opt => CountIn(occ, ty.kids[k].n) >= 1             \* non-Option present
        /\ ~ty.kids[k].multi => CountIn(occ, ty.kids[k].n) <= 1           \* non-Vec at most once
  /\ HasText(occ) => ty.text                                              \* character data only where typed

-----------------------------------------------------------------------------
(* C06: comparison modulo field order, and monotonicity                    *)

SetOf(s) == {s[i] : i \in 1..Len(s)}

RECURSIVE Unordered(_)
Unordered(ty) ==
  [text |-> ty.text,
   attrs |-> SetOf(ty.attrs),
   kids |-> {[n |-> ty.kids[k].n, opt |-> ty.kids[k].opt, multi |-> ty.kids[k].multi,
              ty |-> Unordered(ty.kids[k].ty)] : k \in 1..Len(ty.kids)}]

SameModuloOrder(t1, t2) == Unordered(t1) = Unordered(t2)

\* t2 never drops a field of t1, never makes an Option required or a Vec single, never loses a text flag
RECURSIVE Mono(_, _)
Mono(t1, t2) ==
  /\ t1.text => t2.text
  /\ \A k \in 1..Len(t1.attrs) :
        LET j == AttrIdx(t2, t1.attrs[k].n) IN j # 0 /\ (t1.attrs[k].opt => t2.attrs[j].opt)
  /\ \A k \in 1..Len(t1.kids) :
        LET j == KidIdx(t2, t1.kids[k].n)
        IN /\ j # 0
           /\ t1.kids[k].opt => t2.kids[j].opt
           /\ t1.kids[k].multi => t2.kids[j].multi
           /\ Mono(t1.kids[k].ty, t2.kids[j].ty)

-----------------------------------------------------------------------------
(* C11: the part of a document the output may depend on                    *)

RECURSIVE NormItems(_)
NormEl(it) == El(it.name, it.attrs, NormItems(it.items), "pair")
\* element form erased, CDATA -> text, adjacent text collapsed, ignored items dropped
NormItems(items) ==
  IF items = <<>> THEN <<>>
  ELSE LET h == Head(items)
           rest == NormItems(Tail(items))
       IN CASE h.kind = "ign" -> rest
            [] h.kind = "text" -> IF rest # <<>> /\ Head(rest).kind = "text" THEN rest ELSE <<TextItem(FALSE)>> \o rest
            [] OTHER -> <<NormEl(h)>> \o rest
=============================================================================
