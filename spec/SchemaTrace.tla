----------------------------- MODULE SchemaTrace -----------------------------
(***************************************************************************)
(* Property-level trace validation (impl -> spec) for the inference:       *)
(* C03 (exactness), C01 (soundness of the flags), C06 (extension), C08     *)
(* (verdict).  Nothing of the implementation's mechanism is assumed here:  *)
(* each line is one public call,                                           *)
(*   {"ev":"Call","op":"parse"|"extend","events":[...],"result":{...}}     *)
(* where `events` is what an independent reader pass saw in the bytes      *)
(* (Parser.tla event records) and `result` is what the real call returned  *)
(* ("ok" with the observable schema `proj` of the returned tree, or "err"  *)
(* with the error kind).  {"ev":"Reset"} starts a new session.             *)
(* The specification keeps the DOM of the documents consumed so far and    *)
(* accepts a call only if its result is the one the documents determine.   *)
(***************************************************************************)
EXTENDS Schema, TLC, Json, IOUtils, Integers

Rec == ndJsonDeserialize(IOEnv.TRACE)

VARIABLES
  l,       \* next line
  roots,   \* document elements consumed so far in this session
  cur      \* [st |-> "none"] or the result of the last call of the session

tvars == <<l, roots, cur>>

\* ---- the DOM of one document from its events (a fold with an explicit stack of open nodes)
OpenNode(n, a) == [name |-> n, attrs |-> a, items |-> <<>>]
CloseTop(st) ==
  LET t == st[Len(st)]
      p == st[Len(st) - 1]
  IN Append(SubSeq(st, 1, Len(st) - 2), [p EXCEPT !.items = Append(@, El(t.name, t.attrs, t.items, "pair"))])
AddItem(st, it) == [st EXCEPT ![Len(st)].items = Append(@, it)]

RECURSIVE Fold(_, _, _)
Fold(evs, i, st) ==
  IF i > Len(evs) THEN st
  ELSE LET e == evs[i]
       IN IF e.fault # "none" \/ e.kind = "Err" THEN st
          ELSE CASE e.kind = "Start" -> Fold(evs, i + 1, Append(st, OpenNode(e.name, e.attrs)))
                 [] e.kind = "Empty" -> Fold(evs, i + 1, AddItem(st, El(e.name, e.attrs, <<>>, "empty")))
                 [] e.kind \in {"Text", "CData"} -> Fold(evs, i + 1, AddItem(st, TextItem(e.kind = "CData")))
                 [] e.kind \in {"End", "Eof"} -> Fold(evs, i + 1, IF Len(st) > 1 THEN CloseTop(st) ELSE st)
                 [] OTHER -> Fold(evs, i + 1, AddItem(st, IgnItem(e.kind)))

RECURSIVE Unwind(_)
Unwind(st) == IF Len(st) > 1 THEN Unwind(CloseTop(st)) ELSE st
DocItems(evs) == Unwind(Fold(evs, 1, <<OpenNode("#doc", <<>>)>>))[1].items

\* ---- C08: the verdict the events determine
Faulty(evs) == \E i \in 1..Len(evs) : evs[i].fault # "none" \/ evs[i].kind = "Err"
HasElement(evs) == \E i \in 1..Len(evs) : evs[i].kind \in {"Start", "Empty"} /\ evs[i].fault = "none"
FirstFault(evs) == evs[CHOOSE i \in 1..Len(evs) : (evs[i].fault # "none" \/ evs[i].kind = "Err")
                                                  /\ \A j \in 1..(i - 1) : evs[j].fault = "none" /\ evs[j].kind # "Err"]
ExpectedKind(evs) ==
  IF Faulty(evs)
  THEN LET f == FirstFault(evs)
       IN IF f.kind = "Err" THEN "QuickXml" ELSE IF f.fault = "attr" THEN "Attr" ELSE "Utf8"
  ELSE "Parsing"
ExpectErr(op, evs) == Faulty(evs) \/ (op = "parse" /\ ~HasElement(evs))

\* A deep result arrives as a pre-order list of positions [d, n, opt, multi, text, attrs] ("projflat": the JSON reader
\* refuses documents nested deeper than 255 levels); the schema record is rebuilt from it.
RECURSIVE BuildTy(_, _)
BuildTy(fl, i) ==
  LET RECURSIVE Kids(_, _)
      Kids(j, acc) ==
        IF j <= Len(fl) /\ fl[j].d = fl[i].d + 1
        THEN LET b == BuildTy(fl, j)
             IN Kids(b.nxt, Append(acc, [n |-> fl[j].n, opt |-> fl[j].opt, multi |-> fl[j].multi, ty |-> b.ty]))
        ELSE [kids |-> acc, nxt |-> j]
      k == Kids(i + 1, <<>>)
  IN [ty |-> [text |-> fl[i].text, attrs |-> fl[i].attrs, kids |-> k.kids], nxt |-> k.nxt]
ProjOf(r) == IF "projflat" \in DOMAIN r THEN BuildTy(r.projflat, 1).ty ELSE r.proj

Init == l = 1 /\ roots = <<>> /\ cur = [st |-> "none"]

Reset ==
  /\ Rec[l].ev = "Reset"
  /\ roots' = <<>> /\ cur' = [st |-> "none"] /\ l' = l + 1

\* which property's conjuncts decide acceptance (each check validates the same kind of trace for its own property)
Mode == IOEnv.MODE

Call ==
  LET e == Rec[l]
      evs == e.events
      r == e.result
      experr == ExpectErr(e.op, evs)
  IN /\ e.ev = "Call"
     \* a session starts with a parse; after an error the previous tree is gone, so the next call is a parse again
     /\ e.op = (IF cur.st = "ok" THEN "extend" ELSE "parse")
     /\ r.st \in {"ok", "err"}                                  \* a panic is not a step of the specification
     /\ Mode = "C08" => /\ ((r.st = "err") <=> experr)                               \* C08: error exactly when ...
                         /\ (r.st = "err" => r.kind = ExpectedKind(evs))
                         \* for syntax errors the error carries the reader's error and byte position
                         /\ ((r.st = "err" /\ r.kind = "QuickXml") =>
                                (r.position = e.reader_error.position /\ r.debug = e.reader_error.debug))
     \* C06: a failed extension reports an error rather than a partial result
     /\ Mode = "C06" => (experr => r.st = "err")
     /\ IF r.st = "err"
        THEN roots' = <<>> /\ cur' = [st |-> "err"]
        ELSE LET top == Elems(DocItems(evs))
                 newroots == IF top = <<>> THEN roots ELSE Append(roots, top[1])
                 \* (the harness flags documents in which sibling names / attribute names of one element differ only by
                 \*  namespace prefix: outside the domain of C01 and of the properties quantified "as in C01")
                 indomain == /\ ~experr
                             /\ ~e.prefix_clash
                             /\ Len(top) <= 1
                             /\ \A i \in 1..Len(newroots) : newroots[i].name = newroots[1].name
                             /\ (cur.st = "ok" => cur.indomain)
             IN /\ roots' = newroots
                /\ cur' = [st |-> "ok", proj |-> ProjOf(r), indomain |-> indomain]
                /\ (indomain /\ newroots # <<>>) =>
                      /\ Mode = "C03" => SameModuloOrder(ProjOf(r), TyOf(newroots))
                      /\ Mode = "C09" => (SameModuloOrder(ProjOf(r), TyOf(newroots)) => ProjOf(r) = TyOf(newroots))
                      /\ Mode = "C01" => \A i \in 1..Len(newroots) : Admits(ProjOf(r), newroots[i])
                      /\ Mode = "C06" => /\ (cur.st = "ok" => Mono(cur.proj, ProjOf(r)))
                                          \* extending yields the schema inferred from the union of all occurrences
                                          /\ (cur.st = "ok" => SameModuloOrder(ProjOf(r), TyOf(newroots)))
                                          /\ ((cur.st = "ok" /\ top = <<>>) => ProjOf(r) = cur.proj)
     /\ l' = l + 1

Next == l <= Len(Rec) /\ (Reset \/ Call)
Spec == Init /\ [][Next]_tvars

Accepted ==
  LET matched == TLCGet("stats").diameter - 1
  IN IF matched = Len(Rec) THEN TRUE
     ELSE PrintT("TRACE-REJECTED " \o ToJson([line |-> matched + 1, event |-> Rec[matched + 1]])) /\ FALSE
=============================================================================
