----------------------------- MODULE ParserTrace -----------------------------
(***************************************************************************)
(* Mechanism-level trace validation of the real parser (impl -> spec).     *)
(* The lines are the steps the hooks in src/parser.rs record (cargo        *)
(* feature xsg_verif) framed by the calls the harness makes:               *)
(*   Reset | Begin{op,tree} | Event{kind,elem} | Snap{name,counts,check} | *)
(*   Enter{name,attrs,empty,existed,child} | Closed{parent} |              *)
(*   Return{ok,tree,kind}                                                  *)
(* Each trace action binds every logged field and conjoins the action of   *)
(* Parser.tla it belongs to, then compares the logged projection of the    *)
(* real state (count, position, internal child order included) with the    *)
(* specification's.  All invariants of Parser are checked in every state   *)
(* reached along the recorded execution.                                   *)
(*                                                                         *)
(* Grain of atomicity: Event{Start|Empty|Err} only announce what the next  *)
(* lines decide (stuttering); Snap and Closed log state without an action; *)
(* Enter is EvStart, or - for an empty element, which the code handles     *)
(* without a frame - the whole EvEmpty.                                    *)
(***************************************************************************)
EXTENDS Parser, Json, IOUtils

Rec == ndJsonDeserialize(IOEnv.TRACE)

VARIABLES l, ann      \* next line; the event kind announced by the last Event line ("" if none)
tvars == <<pvars, l, ann>>

E == Rec[l]
HasNext == l < Len(Rec)
NextFails == HasNext /\ Rec[l + 1].ev = "Return" /\ ~Rec[l + 1].ok

TInit == Init /\ l = 1 /\ ann = ""

TReset ==
  /\ E.ev = "Reset"
  /\ stack' = <<>> /\ phase' = "idle" /\ op' = "none" /\ result' = None /\ prev' = None
  /\ atEof' = FALSE /\ gstack' = <<>> /\ doms' = <<>> /\ ann' = ""

TBegin ==
  /\ E.ev = "Begin"
  /\ IF E.op = "parse" THEN BeginParse
     ELSE BeginExtend /\ result.tree = E.tree          \* the tree handed in is the one the last call returned
  /\ ann' = ""

SnapSet(counts) == {<<counts[i][1], counts[i][2]>> : i \in 1..Len(counts)}

TEvent ==
  /\ E.ev = "Event"
  /\ ann = ""                 \* an announced tag / error is followed by Snap, Enter or the failing Return, not by another event
  /\ CASE E.kind \in {"Start", "Empty", "Err"} ->
            Reading /\ ~atEof /\ ann' = E.kind /\ UNCHANGED pvars
       [] E.kind \in {"Text", "CData"} ->
            IF NextFails THEN Reading /\ ann' = E.kind /\ UNCHANGED pvars     \* to_str fails: nothing was set
            ELSE EvText(Ev(E.kind, "", <<>>, "none")) /\ ann' = ""
       [] E.kind \in IgnoredKinds -> EvIgnored(Ev(E.kind, "", <<>>, "none")) /\ ann' = ""
       [] E.kind \in {"End", "Eof"} ->
            /\ Reading /\ E.elem = Top.elem                                    \* what build_struct is about to return
            /\ EvClose(Ev(E.kind, "", <<>>, "none")) /\ ann' = ""

\* count_children ran: the logged snapshot is the specification's
TSnap ==
  /\ E.ev = "Snap" /\ ann = "Start" /\ Reading
  /\ E.check = HasChild(Top.elem, E.name)
  /\ SnapSet(E.counts) = (IF HasChild(Top.elem, E.name) THEN Snapshot(GetChild(Top.elem, E.name).e) ELSE {})
  /\ UNCHANGED <<pvars, ann>>

TEnter ==
  /\ E.ev = "Enter" /\ Reading
  /\ E.existed = HasChild(Top.elem, E.name)
  /\ TakeChild(Top.elem, E.name, E.attrs, Top.known).child = E.child          \* merged attributes, standalone, count
  /\ IF E.empty THEN ann = "Empty" /\ EvEmpty(Ev("Empty", E.name, E.attrs, "none"))
     ELSE ann = "Start" /\ EvStart(Ev("Start", E.name, E.attrs, "none")) /\ Top'.elem = E.child
  /\ ann' = ""

\* the element is back in its parent and its optional children were tagged
TClosed ==
  /\ E.ev = "Closed" /\ Reading /\ Top.elem = E.parent
  /\ UNCHANGED <<pvars, ann>>

KindAllowed(kind) ==
  CASE ann \in {"Start", "Empty"} -> kind \in {"Utf8", "Attr"}
    [] ann \in {"Text", "CData"} -> kind = "Utf8"
    [] ann = "Err" -> kind = "QuickXml"
    [] OTHER -> FALSE

TReturn ==
  /\ E.ev = "Return"
  /\ IF phase = "returned"
     THEN /\ E.ok = (result.st = "ok")
          /\ E.ok => result.tree = E.tree
          /\ ~E.ok => result.kind = E.kind
          /\ UNCHANGED pvars
     ELSE /\ ~E.ok /\ Reading /\ KindAllowed(E.kind) /\ Fail(E.kind)
  /\ ann' = ""

TNext == l <= Len(Rec) /\ l' = l + 1 /\ (TReset \/ TBegin \/ TEvent \/ TSnap \/ TEnter \/ TClosed \/ TReturn)
TSpec == TInit /\ [][TNext]_tvars

Accepted ==
  LET matched == TLCGet("stats").diameter - 1
  IN IF matched = Len(Rec) THEN TRUE
     ELSE PrintT("TRACE-REJECTED " \o ToJson([line |-> matched + 1, event |-> Rec[matched + 1]])) /\ FALSE
=============================================================================
