----------------------------- MODULE RenderProps -----------------------------
(***************************************************************************)
(* The renderer-side properties C04, C09, C10, C14, C16 (and the renderer  *)
(* half of C01) as predicates over a tree, options and *any* sequence of   *)
(* struct records << [hasderive, derive, name, fields] >> - the model's    *)
(* (Render!RenderStructs) or the parsed output of the real to_serde_struct.*)
(* Each predicate yields a set of violation tags, so that one evaluation   *)
(* says which clause of which property failed.  Nothing here predicts a    *)
(* struct name or a field identifier; those are only judged.               *)
(***************************************************************************)
EXTENDS Render

\* the model's output in the shape the harness logs
ModelStructs(tree, opts) ==
  LET ss == RenderStructs(tree, opts)
  IN [k \in 1..Len(ss) |-> [hasderive |-> opts.derive # <<>>, derive |-> opts.derive,
                            name |-> ss[k].name, fields |-> ss[k].fields]]

-----------------------------------------------------------------------------
(* domains                                                                 *)

NameCharsOk(s) == \A i \in 1..Len(s) : IsAlnum(s[i]) \/ s[i] \in {"_", "-", ".", ":"}
LetterBeforeDigit(s) ==
  \A i \in 1..Len(s) : IsAsciiDigit(s[i]) => \E j \in 1..(i - 1) : IsLetter(s[j])
\* C04: names consist of identifier characters plus - . : and have a letter before any digit
DomC04(tree) == \A n \in AllNames(tree) : n # <<>> /\ NameCharsOk(n) /\ LetterBeforeDigit(n)

-----------------------------------------------------------------------------
(* C04                                                                     *)

Shadowed == { <<"S","t","r","i","n","g">>, <<"O","p","t","i","o","n">>, <<"V","e","c">> }

StructNames(ss) == [k \in 1..Len(ss) |-> ss[k].name]
UseCount(ss, n) ==
  LET per[k \in 0..Len(ss)] ==
        IF k = 0 THEN 0
        ELSE per[k - 1] + Cardinality({i \in 1..Len(ss[k].fields) : ss[k].fields[i].base = n})
  IN per[Len(ss)]

C04Tags(ss) ==
  LET names == StructNames(ss)
  IN (IF \E k \in 1..Len(ss) : names[k] = <<>> THEN {"EMPTY_NAME"} ELSE {})
     \cup (IF \E k \in 1..Len(ss) : names[k] # <<>> /\ IsKeyword(names[k]) THEN {"RESERVED"} ELSE {})
     \cup (IF \E k \in 1..Len(ss) : names[k] # <<>> /\ ~IsKeyword(names[k]) /\ ~LegalIdent(names[k]) THEN {"ILLEGAL_STRUCT"} ELSE {})
     \cup (IF \E j, k \in 1..Len(ss) : j # k /\ names[j] = names[k] THEN {"DUP_STRUCT"} ELSE {})
     \cup (IF \E k \in 1..Len(ss) : names[k] \in Shadowed THEN {"SHADOW"} ELSE {})
     \cup (IF \E k \in 1..Len(ss) : \E i \in 1..Len(ss[k].fields) : ~LegalIdent(ss[k].fields[i].ident) THEN {"ILLEGAL_FIELD"} ELSE {})
     \cup (IF \E k \in 1..Len(ss) : \E i, j \in 1..Len(ss[k].fields) : i # j /\ ss[k].fields[i].ident = ss[k].fields[j].ident
           THEN {"DUP_FIELD"} ELSE {})
     \cup (IF \E k \in 1..Len(ss) : \E i \in 1..Len(ss[k].fields) :
                ss[k].fields[i].base # StringTy /\ ~\E j \in 1..Len(ss) : names[j] = ss[k].fields[i].base
           THEN {"UNRESOLVED"} ELSE {})
     \cup (IF \E k \in 2..Len(ss) : UseCount(ss, names[k]) # 1 THEN {"USECOUNT"} ELSE {})

-----------------------------------------------------------------------------
(* what the tree determines about the fields of one struct (C01, C09, C10, C16) *)

\* element records of the structs, in output order (parallel to StructPaths)
RECURSIVE StructElems(_, _)
StructElems(e, opts) ==
  LET co == ChildOrder(e, opts)
      sub[k \in 0..Len(co)] ==
        IF k = 0 THEN <<>>
        ELSE sub[k - 1] \o (IF ContainsOnlyText(e.ch[co[k]].e) THEN <<>> ELSE StructElems(e.ch[co[k]].e, opts))
  IN <<e>> \o sub[Len(co)]

AttrBinding(real, opts) == opts.prefix \o (IF StartsWithXmlns(real) THEN real ELSE RemoveNamespace(real))

\* [kind, bound, opt, vec, str] per field, in the order C09 demands
ExpectedFields(e, opts) ==
  LET ao == AttrOrder(e, opts)
      co == ChildOrder(e, opts)
  IN [k \in 1..Len(ao) |-> [kind |-> "attr", bound |-> AttrBinding(e.attrs[ao[k]].v, opts),
                            opt |-> e.attrs[ao[k]].t = "O", vec |-> FALSE, str |-> TRUE]]
     \o (IF e.text THEN <<[kind |-> "text", bound |-> opts.textid, opt |-> TRUE, vec |-> FALSE, str |-> TRUE]>> ELSE <<>>)
     \o [k \in 1..Len(co) |-> [kind |-> "child", bound |-> RemoveNamespace(e.ch[co[k]].e.name),
                              opt |-> e.ch[co[k]].t = "O", vec |-> ~e.ch[co[k]].e.sa,
                              str |-> ContainsOnlyText(e.ch[co[k]].e)]]

Bound(f) == IF f.hasren THEN f.ren ELSE f.ident
Shape(f) == [bound |-> Bound(f), opt |-> f.opt, vec |-> f.vec, str |-> f.base = StringTy]
ShapeOfExpected(x) == [bound |-> x.bound, opt |-> x.opt, vec |-> x.vec, str |-> x.str]

\* bag equality of two sequences
SameBag(a, b) ==
  /\ Len(a) = Len(b)
  /\ \A x \in {a[i] : i \in 1..Len(a)} \cup {b[i] : i \in 1..Len(b)} :
        Cardinality({i \in 1..Len(a) : a[i] = x}) = Cardinality({i \in 1..Len(b) : b[i] = x})

\* positions are tied (hand-built trees only): the order of the tied children is unspecified
PosTies(e) == \E i, j \in 1..Len(e.ch) : i # j /\ e.ch[i].e.pos = e.ch[j].e.pos

\* C16 / C01: the fields reflect exactly the tree's children, attributes, optionality, multiplicity and text
ReflectsElem(e, fs, opts) ==
  LET ex == ExpectedFields(e, opts)
  IN SameBag([i \in 1..Len(fs) |-> Shape(fs[i])], [i \in 1..Len(ex) |-> ShapeOfExpected(ex[i])])
ReflectTags(tree, opts, ss) ==
  LET es == StructElems(tree, opts)
  IN IF \E k \in 1..Len(ss) : ss[k].name = StringTy THEN {}     \* a struct named String: SHADOW (C04) subsumes
     ELSE IF Len(es) # Len(ss) THEN {"STRUCT_COUNT"}
     ELSE IF \E k \in 1..Len(ss) : ~ReflectsElem(es[k], ss[k].fields, opts) THEN {"FIELDS_DIFFER"} ELSE {}

\* C09: attributes, text, children, each group in the demanded order; structs in pre-order of that order
OrderedElem(e, fs, opts) ==
  LET ex == ExpectedFields(e, opts)
  IN [i \in 1..Len(fs) |-> Bound(fs[i])] = [i \in 1..Len(ex) |-> ex[i].bound]
IsDigits(s) == s # <<>> /\ \A i \in 1..Len(s) : IsAsciiDigit(s[i])
SuffixShape(s) == s = <<>> \/ IsDigits(s) \/ (s[1] = "_" /\ IsDigits(Tail(s)))

\* the name is  Pascal(e_{k-j}) .. Pascal(e_k) suffix  for some j
QualifiedOk(name, path) ==
  \E j \in 0..(Len(path) - 1) :
     LET q == Concat([i \in 1..(j + 1) |-> ToPascal(path[Len(path) - j - 1 + i])])
     IN StartsWith(name, q) /\ SuffixShape(SubSeq(name, Len(q) + 1, Len(name)))

\* struct definitions follow the pre-order walk: the k-th struct is named after the k-th element of that walk
\* (a struct that only fits another position of the walk is out of order)
OrderTags(tree, opts, ss) ==
  LET es == StructElems(tree, opts)
      ps == StructPaths(tree, <<>>, opts)
  IN IF Len(es) # Len(ss) THEN {"STRUCT_COUNT"}
     ELSE (IF \E k \in 1..Len(ss) : ~PosTies(es[k]) /\ ~OrderedElem(es[k], ss[k].fields, opts)
           THEN {"FIELD_ORDER"} ELSE {})
          \* (only the first struct that does not fit its own position is tried at the other positions: with many
          \*  misnamed structs in a large tree the quantifier over all pairs does not finish)
          \cup (LET bad == {k \in 1..Len(ss) : ~QualifiedOk(ss[k].name, ps[k])}
                IN IF bad # {} /\ (\A q \in 1..Len(es) : ~PosTies(es[q]))
                      /\ LET k == CHOOSE x \in bad : \A y \in bad : x <= y
                         IN \E j \in 1..Len(ps) : QualifiedOk(ss[k].name, ps[j])
                   THEN {"STRUCT_ORDER"} ELSE {})

\* C10: derive verbatim on every struct / absent when empty; rename exactly when the bound name differs
OptionTags(tree, opts, ss) ==
  (IF \E k \in 1..Len(ss) : ss[k].hasderive # (opts.derive # <<>>) \/ (ss[k].hasderive /\ ss[k].derive # opts.derive)
   THEN {"DERIVE"} ELSE {})
  \cup (IF \E k \in 1..Len(ss) : \E i \in 1..Len(ss[k].fields) :
             LET f == ss[k].fields[i] IN f.hasren /\ f.ren = f.ident /\ Bound(f) # opts.textid
        THEN {"NEEDLESS_RENAME"} ELSE {})

\* C10 / C09: the part of a rendering that only the sort option may change; and the part nothing but sort changes
Skeleton(ss) ==
  [k \in 1..Len(ss) |-> [name |-> ss[k].name,
                         fields |-> [i \in 1..Len(ss[k].fields) |->
                                       [ident |-> ss[k].fields[i].ident, opt |-> ss[k].fields[i].opt,
                                        vec |-> ss[k].fields[i].vec, base |-> ss[k].fields[i].base]]]]
\* with a different sort option the same structs and fields appear, only in another order: every field keeps its
\* binding, identifier and type (the binding is part of a field's identity here: which XML name got which identifier)
BoundSkeleton(ss) ==
  [k \in 1..Len(ss) |-> [name |-> ss[k].name,
                         fields |-> [i \in 1..Len(ss[k].fields) |->
                                       [bound |-> Bound(ss[k].fields[i]), ident |-> ss[k].fields[i].ident, opt |-> ss[k].fields[i].opt,
                                        vec |-> ss[k].fields[i].vec, base |-> ss[k].fields[i].base]]]]
SameModuloSort(s1, s2) ==
  LET sk1 == BoundSkeleton(s1)
      sk2 == BoundSkeleton(s2)
  IN /\ Len(sk1) = Len(sk2)
     /\ \A k \in 1..Len(sk1) :
           \E j \in 1..Len(sk2) : sk2[j].name = sk1[k].name /\ SameBag(sk1[k].fields, sk2[j].fields)

-----------------------------------------------------------------------------
(* C14                                                                     *)

NameTags(tree, opts, ss) ==
  LET ps == StructPaths(tree, <<>>, opts)
      all == AllPaths(tree, <<>>)
      owns == [i \in 1..Len(all) |-> ToPascal(all[i][Len(all[i])])]
      Own(p) == ToPascal(p[Len(p)])
      Single(p) == LET o == Own(p) IN Cardinality({i \in 1..Len(owns) : owns[i] = o}) = 1
  IN IF Len(ps) # Len(ss) THEN {"STRUCT_COUNT"}
     ELSE (IF \E k \in 1..Len(ss) : ~QualifiedOk(ss[k].name, ps[k]) THEN {"NAME_SHAPE"} ELSE {})
          \cup (IF \E k \in 1..Len(ss) : ss[k].name # Own(ps[k]) /\ Single(ps[k]) THEN {"NEEDLESS_QUALIFICATION"} ELSE {})
          \cup (IF ss # <<>> /\ ~QualifiedOk(ss[1].name, <<tree.name>>) THEN {"FIRST_NOT_ROOT"} ELSE {})
=============================================================================
