---------------------------- MODULE NecessityApa ----------------------------
(***************************************************************************)
(* C15 beyond the bounds TLC enumerates: the merge of Necessity.tla        *)
(* restated with bounded folds (MergeFold) and the property restated index *)
(* by index (C15Idx), so that Apalache can check it symbolically for *all* *)
(* pairs of duplicate-free lists of at most MaxLen items over the          *)
(* integers (no alphabet bound).  TLC checks on the exhaustive instance    *)
(* MC_NecessityApa that MergeFold = Necessity!Merge and that C15Idx and    *)
(* Necessity!C15 agree on the merge result and on perturbed results, so    *)
(* the two formulations cannot drift apart.                                *)
(***************************************************************************)
EXTENDS Integers, Sequences, FiniteSets, Apalache

(*
  @typeAlias: item = { t: Str, v: Int };
*)
NecessityApa_aliases == TRUE

\* @type: Int => $item;
ManA(v) == [t |-> "M", v |-> v]
\* @type: Int => $item;
OptA(v) == [t |-> "O", v |-> v]

\* @type: (Seq($item), Int) => Bool;
HasVal(s, v) == \E i \in DOMAIN s : s[i].v = v

\* index of the first item with value v, 0 if there is none
\* @type: (Seq($item), Int) => Int;
FirstIdxA(s, v) ==
  LET I == {i \in DOMAIN s : s[i].v = v}
  IN IF I = {} THEN 0 ELSE CHOOSE i \in I : \A j \in I : i <= j

\* first loop of merge_necessity
\* @type: (Seq($item), Seq($item)) => Seq($item);
Pass1A(vec, other) ==
  LET \* @type: (Seq($item), $item) => Seq($item);
      Step1(res, x) ==
        LET j == FirstIdxA(other, x.v)
        IN Append(res, IF j # 0 /\ other[j].t = "M" /\ x.t = "M" THEN ManA(x.v) ELSE OptA(x.v))
  IN ApaFoldSeqLeft(Step1, <<>>, vec)

\* second loop: items of other that are not yet in the result, as Optional
\* @type: (Seq($item), Seq($item)) => Seq($item);
MergeFold(vec, other) ==
  LET \* @type: (Seq($item), $item) => Seq($item);
      Step(res, h) == IF HasVal(res, h.v) THEN res ELSE Append(res, OptA(h.v))
  IN ApaFoldSeqLeft(Step, Pass1A(vec, other), other)

-----------------------------------------------------------------------------
\* @type: Seq($item) => Bool;
DupFreeA(s) == \A i, j \in DOMAIN s : s[i].v = s[j].v => i = j

\* @type: Seq($item) => Set(Int);
ValsA(s) == {s[i].v : i \in DOMAIN s}

\* @type: (Seq($item), Int) => Bool;
MandIn(s, v) == \E i \in DOMAIN s : s[i].v = v /\ s[i].t = "M"

\* C15 index by index, for duplicate-free a and b
\* @type: (Seq($item), Seq($item), Seq($item)) => Bool;
C15Idx(a, b, r) ==
  /\ DupFreeA(r) /\ ValsA(r) = ValsA(a) \union ValsA(b)                       \* each distinct item exactly once
  /\ \A k \in DOMAIN r : (r[k].t = "M") <=> (MandIn(a, r[k].v) /\ MandIn(b, r[k].v))
  /\ Len(r) >= Len(a) /\ \A i \in DOMAIN a : r[i].v = a[i].v                   \* the first list first, in its order
  /\ \A k \in DOMAIN r : k > Len(a) => ~HasVal(a, r[k].v)                      \* then the items only in the second list
  /\ \A k1, k2 \in DOMAIN r :                                                 \* in their original relative order
        (Len(a) < k1 /\ k1 < k2) => FirstIdxA(b, r[k1].v) < FirstIdxA(b, r[k2].v)

-----------------------------------------------------------------------------
CONSTANT
  \* @type: Int;
  MaxLen

VARIABLES
  \* @type: Seq($item);
  vec,
  \* @type: Seq($item);
  other

\* @type: Seq($item) => Bool;
WellTagged(s) == \A i \in DOMAIN s : s[i].t \in {"M", "O"}

\* any two duplicate-free tagged lists of at most MaxLen items over the integers
Init ==
  /\ vec = Gen(MaxLen) /\ other = Gen(MaxLen)
  /\ DupFreeA(vec) /\ DupFreeA(other) /\ WellTagged(vec) /\ WellTagged(other)
Next == UNCHANGED <<vec, other>>

InvC15 == C15Idx(vec, other, MergeFold(vec, other))
InvIdem == MergeFold(MergeFold(vec, other), other) = MergeFold(vec, other)
ConstInit3 == MaxLen = 3
ConstInit4 == MaxLen = 4
ConstInit6 == MaxLen = 6
ConstInit8 == MaxLen = 8
=============================================================================
