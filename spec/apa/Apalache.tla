--------------------------- MODULE Apalache -----------------------------------
(*
 * This is a standard module for use with the Apalache model checker.
 * The meaning of the operators is explained in the comments.
 * Many of the operators serve as additional annotations of their arguments.
 * As we like to preserve compatibility with TLC and TLAPS, we define the
 * operator bodies by erasure. The actual interpretation of the operators is
 * encoded inside Apalache. For the moment, these operators are mirrored in
 * the class at.forsyte.apalache.tla.lir.oper.ApalacheOper.
 *                                                                          
 * Igor Konnov, Jure Kukovec, Informal Systems 2020-2022
 * Igor Konnov, konnov.phd, 2026
 *)

(**
 * An assignment of an expression e to a state variable x. Typically, one
 * uses the non-primed version of x in the initializing predicate Init and
 * the primed version of x (that is, x') in the transition predicate Next.
 * Although TLA+ does not have a concept of a variable assignment, we find
 * this concept extremely useful for symbolic model checking. In pure TLA+,
 * one would simply write x = e, or x \in {e}.
 *
 * Apalache automatically converts some expressions of the form
 * x = e or x \in {e} into assignments. However, if you like to annotate
 * assignments by hand, you can use this operator.
 *
 * For a further discussion on that matter, see:
 * https://github.com/apalache-mc/apalache/blob/main/docs/src/idiomatic/001assignments.md
 *)
__x := __e == __x = __e

(**
 * A generator of a data structure. Given a positive integer `bound`, and
 * assuming that the type of the operator application is known, we
 * recursively generate a TLA+ data structure as a tree, whose width is
 * bound by the number `bound`.
 *
 * The body of this operator is redefined by Apalache.
 *)
Gen(__size) == {}

(**
 * Non-deterministically pick a value out of the set `S`, if `S` is non-empty.
 * If `S` is empty, return some value of the proper type.  This can be
 * understood as a non-deterministic version of CHOOSE x \in S: TRUE.
 *
 * @type: Set(a) => a;
 *)
Guess(__S) ==
    \* Since this is not supported by TLC,
    \* we fall back to the deterministic version for TLC.
    \* Apalache redefines the operator `Guess` as explained above.
    CHOOSE __x \in __S: TRUE

(**
 * Convert a set of pairs S to a function F. Note that if S contains at least
 * two pairs <<x, y>> and <<u, v>> such that x = u and y /= v,
 * then F is not uniquely defined. We use CHOOSE to resolve this ambiguity.
 * Apalache implements a more efficient encoding of this operator
 * than the default one.
 *
 * @type: Set(<<a, b>>) => (a -> b);
 *)
SetAsFun(__S) ==
    LET __Dom == { __x: <<__x, __y>> \in __S }
        __Rng == { __y: <<__x, __y>> \in __S }
    IN
    [ __x \in __Dom |-> CHOOSE __y \in __Rng: <<__x, __y>> \in __S ]

(**
 * A sequence constructor that avoids using a function constructor.
 * Since Apalache is typed, this operator is more efficient than
 * FunAsSeq([ i \in 1..N |-> F(i) ]). Apalache requires N to be
 * a constant expression.
 *
 * @type: (Int, (Int -> a)) => Seq(a);
 *)
LOCAL INSTANCE Integers
MkSeq(__N, __F(_)) ==
    \* This is the TLC implementation. Apalache does it differently.
    \* If __F is not defined on i \in 1..__N, TLC fails.
    \* Apalache evaluates symbolically. This is why definitions
    \* like `FunAsSeq` work.
    [ __i \in (1..__N) |-> __F(__i) ]

\* required by our default definition of FoldSeq and FunAsSeq
LOCAL INSTANCE Sequences

(**
 * As TLA+ is untyped, one can use function- and sequence-specific operators
 * interchangeably. However, to maintain correctness w.r.t. our type-system,
 * an explicit cast is needed when using functions as sequences.
 * FunAsSeq reinterprets a function over integers as a sequence.
 *
 * The parameters have the following meaning:
 *
 *  - fn is the function from 1..len that should be interpreted as a sequence.
 *  - len is the length of the sequence, len = Cardinality(DOMAIN fn),
 *    len may be a variable, a computable expression, etc.
 *  - capacity is a static upper bound on the length, that is, len <= capacity.
 *
 * @type: ((Int -> a), Int, Int) => Seq(a);
 *)
FunAsSeq(__fn, __len, __capacity) ==
    LET __FunAsSeq_elem_ctor(__i) == __fn[__i] IN
    SubSeq(MkSeq(__capacity, __FunAsSeq_elem_ctor), 1, __len)

(**
 * Annotating an expression \E x \in S: P as Skolemizable. That is, it can
 * be replaced with an expression c \in S /\ P(c) for a fresh constant c.
 * Not every exisential can be replaced with a constant, this should be done
 * with care. Apalache detects Skolemizable expressions by static analysis.
 *)
Skolem(__e) == __e

(**
 * A hint to the model checker to expand a set S, instead of dealing
 * with it symbolically. Apalache finds out which sets have to be expanded
 * by static analysis.
 *)
Expand(__S) == __S

(**
 * A hint to the model checker to replace its argument Cardinality(S) >= k
 * with a series of existential quantifiers for a constant k.
 * Similar to Skolem, this has to be done carefully. Apalache automatically
 * places this hint by static analysis.
 *)
ConstCardinality(__cardExpr) == __cardExpr

(**
 * The folding operator, used to implement computation over a set.
 * Apalache implements a more efficient encoding than the one below.
 * (from the community modules).
 *
 * @type: ((a, b) => a, a, Set(b)) => a;
 *)
RECURSIVE ApaFoldSet(_, _, _)
ApaFoldSet(__Op(_,_), __v, __S) ==
    IF __S = {}
    THEN __v
    ELSE LET __w == CHOOSE __x \in __S: TRUE IN
         LET __T == __S \ {__w} IN
         ApaFoldSet(__Op, __Op(__v,__w), __T)

(**
 * The folding operator, used to implement computation over a sequence.
 * Apalache implements a more efficient encoding than the one below.
 * (from the community modules).
 *
 * @type: ((a, b) => a, a, Seq(b)) => a;
 *)
RECURSIVE ApaFoldSeqLeft(_, _, _)
ApaFoldSeqLeft(__Op(_,_), __v, __seq) ==
    IF __seq = <<>>
    THEN __v
    ELSE ApaFoldSeqLeft(__Op, __Op(__v, Head(__seq)), Tail(__seq))

(**
 * The repetition operator, used to consecutively apply an operator, starting from
 * an initial value.
 *
 * @type: ((a, Int) => a, Int, a) => a;
 *)
RECURSIVE Repeat(_,_,_)
Repeat(__F(_,_), __N, __x) ==
        \* This is the TLC implementation. Apalache does it differently.
        IF __N <= 0
        THEN __x
        ELSE __F(Repeat(__F, __N - 1, __x), __N)

===============================================================================
