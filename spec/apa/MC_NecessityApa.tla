-------------------------- MODULE MC_NecessityApa --------------------------
(***************************************************************************)
(* Keeps the Apalache formulation (NecessityApa: MergeFold, C15Idx) tied   *)
(* to the source of truth (Necessity: Merge, C15): on every pair of lists  *)
(* of the exhaustive instance MC_Necessity the two merges are equal, and   *)
(* the two statements of C15 give the same verdict on the merge result and *)
(* on every perturbation of it (adjacent swap, dropped item, flipped tag,  *)
(* duplicated item, an item moved to the end).                             *)
(***************************************************************************)
EXTENDS MC_Necessity

A == INSTANCE NecessityApa

InvSameMerge == A!MergeFold(vec, other) = Merge(vec, other)

Swap(r, i) == [k \in DOMAIN r |-> IF k = i THEN r[i + 1] ELSE IF k = i + 1 THEN r[i] ELSE r[k]]
Drop(r, i) == SubSeq(r, 1, i - 1) \o SubSeq(r, i + 1, Len(r))
Flip(r, i) == [r EXCEPT ![i].t = IF @ = "M" THEN "O" ELSE "M"]
Perturbed(r) ==
  {r} \cup {Swap(r, i) : i \in 1..(Len(r) - 1)} \cup {Drop(r, i) : i \in 1..Len(r)} \cup {Flip(r, i) : i \in 1..Len(r)}
      \cup {Append(r, r[i]) : i \in 1..Len(r)} \cup {Append(Drop(r, i), r[i]) : i \in 1..Len(r)}

InvSameProperty ==
  \A r \in Perturbed(Merge(vec, other)) : C15(vec, other, r) <=> A!C15Idx(vec, other, r)

\* the perturbations are not all accepted (the equivalence above is not vacuous)
SomeRejected == (Len(vec) >= 1 /\ Len(other) >= 1) => \E r \in Perturbed(Merge(vec, other)) : ~C15(vec, other, r)
=============================================================================
