-------------------------------- MODULE Deser --------------------------------
(***************************************************************************)
(* A contract model of what a serde XML deserializer does with a document  *)
(* and a set of rendered struct definitions (C02: quick_xml::de 0.37 with  *)
(* overlapped-lists, C13: serde_xml_rs 0.6).  It is value-free: it predicts *)
(* whether deserialization succeeds (plain and with deny_unknown_fields)   *)
(* and how many attribute values / text contents are not captured by any   *)
(* field.  The real compiler and deserializers stay the judges; the model  *)
(* is compared with them case by case (ProgramTrace) and a disagreement is *)
(* a finding about the *model*, never an alarm.                            *)
(*                                                                         *)
(* occ: DOM element [name, attrs, items] with text items [kind |-> "text", *)
(* data]; ss: struct records as in RenderProps; k: index of the struct for *)
(* occ.  Result: [ok, okdeny, missA, missT].                               *)
(***************************************************************************)
EXTENDS RenderProps, Schema

Res(ok, okdeny, a, t) == [ok |-> ok, okdeny |-> okdeny, missA |-> a, missT |-> t]
Plus(r, s) == Res(r.ok /\ s.ok, r.okdeny /\ s.okdeny, r.missA + s.missA, r.missT + s.missT)

\* keys under which the deserializer presents attributes, children and character data
AttrKey(kind, a) == IF kind = "quick_xml" THEN <<"@">> \o (IF StartsWithXmlns(a) THEN a ELSE RemoveNamespace(a))
                    ELSE RemoveNamespace(a)
ChildKey(n) == RemoveNamespace(n)
TextKey(kind) == IF kind = "quick_xml" THEN <<"$","t","e","x","t">> ELSE <<"$","v","a","l","u","e">>

FieldIdx(fs, key) == LET I == {i \in 1..Len(fs) : Bound(fs[i]) = key} IN IF I = {} THEN 0 ELSE CHOOSE i \in I : \A j \in I : i <= j
DataText(occ) == \E j \in 1..Len(occ.items) : occ.items[j].kind = "text" /\ occ.items[j].data
KidsNamed(occ, key) == SelectSeq(occ.items, LAMBDA it : IsEl(it) /\ ChildKey(it.name) = key)
StructIdxOf(ss, name) == LET I == {k \in 1..Len(ss) : ss[k].name = name} IN IF I = {} THEN 0 ELSE CHOOSE k \in I : \A j \in I : k <= j

\* everything below an element that no field captures
RECURSIVE Dropped(_)
Dropped(occ) ==
  LET sub[j \in 0..Len(occ.items)] ==
        IF j = 0 THEN Res(TRUE, TRUE, 0, 0)
        ELSE IF IsEl(occ.items[j]) THEN Plus(sub[j - 1], Dropped(occ.items[j])) ELSE sub[j - 1]
  IN Plus(Res(TRUE, TRUE, Len(occ.attrs), IF DataText(occ) THEN 1 ELSE 0), sub[Len(occ.items)])

RECURSIVE DeserElem(_, _, _, _)
\* character data that a processing instruction splits into two nodes (DOMs built by ProgramTrace carry [kind |-> "pi"] items)
SplitByPi(occ) ==
  \E i, j, k \in 1..Len(occ.items) :
     i < j /\ j < k /\ occ.items[i].kind = "text" /\ occ.items[j].kind = "pi" /\ occ.items[k].kind = "text"
     /\ \A m \in (i + 1)..(k - 1) : occ.items[m].kind = "pi"
\* an element delivered into a String field: its character data is the value; attributes are not looked at
DeserString(occ, kind) ==
  IF Elems(occ.items) # <<>> THEN Res(FALSE, FALSE, 0, 0)        \* a String cannot take child elements
  ELSE IF kind = "serde_xml_rs" /\ SplitByPi(occ) THEN Res(FALSE, FALSE, 0, 0)   \* serde-xml-rs 0.6: known finding KF-C13-SPLITTEXT
  ELSE Res(TRUE, TRUE, Len(occ.attrs), 0)

DeserElem(ss, k, occ, kind) ==
  LET fs == ss[k].fields
      \* attributes
      attrRes[j \in 0..Len(occ.attrs)] ==
        IF j = 0 THEN Res(TRUE, TRUE, 0, 0)
        ELSE LET prev == attrRes[j - 1]
             IN IF FieldIdx(fs, AttrKey(kind, occ.attrs[j])) # 0 THEN prev
                ELSE Plus(prev, Res(TRUE, FALSE, 1, 0))              \* unknown attribute: dropped, rejected under deny
      \* character data
      textRes ==
        IF ~DataText(occ) THEN Res(TRUE, TRUE, 0, 0)
        ELSE IF FieldIdx(fs, TextKey(kind)) # 0 THEN Res(TRUE, TRUE, 0, 0)
        ELSE Res(TRUE, FALSE, 0, 1)
      \* child elements, by key
      keys == {ChildKey(occ.items[j].name) : j \in {i \in 1..Len(occ.items) : IsEl(occ.items[i])}}
      KeyRes(key) ==
        LET i == FieldIdx(fs, key)
            kids == KidsNamed(occ, key)
            each[j \in 0..Len(kids)] ==
              IF j = 0 THEN Res(TRUE, TRUE, 0, 0)
              ELSE LET prev == each[j - 1]
                   IN IF i = 0 THEN Plus(prev, Plus(Res(TRUE, FALSE, 0, 0), Dropped(kids[j])))
                      ELSE IF fs[i].base = StringTy THEN Plus(prev, DeserString(kids[j], kind))
                      ELSE LET sk == StructIdxOf(ss, fs[i].base)
                           IN IF sk = 0 THEN Res(FALSE, FALSE, 0, 0) ELSE Plus(prev, DeserElem(ss, sk, kids[j], kind))
        IN IF i # 0 /\ ~fs[i].vec /\ Len(kids) > 1 THEN Res(FALSE, FALSE, 0, 0)    \* duplicate field
           ELSE each[Len(kids)]
      kidsRes == LET ks == SetToSeq(keys)          \* (any order: Plus is commutative)
                     acc[j \in 0..Len(ks)] == IF j = 0 THEN Res(TRUE, TRUE, 0, 0) ELSE Plus(acc[j - 1], KeyRes(ks[j]))
                 IN acc[Len(ks)]
      \* every field that is neither Option nor present is a "missing field" error
      present(f) == \/ \E j \in 1..Len(occ.attrs) : AttrKey(kind, occ.attrs[j]) = Bound(f)
                    \/ KidsNamed(occ, Bound(f)) # <<>>
                    \/ (Bound(f) = TextKey(kind) /\ DataText(occ))
      missing == \E i \in 1..Len(fs) : ~fs[i].opt /\ ~present(fs[i])
  IN IF missing THEN Res(FALSE, FALSE, 0, 0)
     ELSE Plus(Plus(attrRes[Len(occ.attrs)], textRes), kidsRes)

-----------------------------------------------------------------------------
(* the domains of C02 and C13 *)
\* per position over all occurrences (as TyOf merges them)
HasData(occ) == \E j \in 1..Len(occ.items) : occ.items[j].kind = "text" /\ occ.items[j].data
HasKids(occ) == \E j \in 1..Len(occ.items) : IsEl(occ.items[j])
NamesOfKids(occs) == {n \in UNION {{occs[o].items[j].name : j \in {k \in 1..Len(occs[o].items) : IsEl(occs[o].items[k])}} : o \in 1..Len(occs)} : TRUE}
NamesOfAttrs(occs) == UNION {{occs[o].attrs[j] : j \in 1..Len(occs[o].attrs)} : o \in 1..Len(occs)}
AttrLocal(a) == IF StartsWithXmlns(a) THEN a ELSE RemoveNamespace(a)
NoClash(S, Local(_)) == \A x, y \in S : Local(x) = Local(y) => x = y
\* repeated children are adjacent in one occurrence
Adjacent(occ) ==
  LET es == Elems(occ.items)
  IN \A i, j \in 1..Len(es) : (i < j /\ es[i].name = es[j].name) => \A k \in i..j : es[k].name = es[i].name

RECURSIVE PosC02(_)
PosC02(occs) ==
  /\ \A o \in 1..Len(occs) : ~(HasData(occs[o]) /\ HasKids(occs[o]))          \* data-oriented
  /\ NoClash(NamesOfKids(occs), RemoveNamespace)                               \* no clash after prefix removal
  /\ NoClash(NamesOfAttrs(occs), AttrLocal)
  /\ \A n \in NamesOfKids(occs) \cup NamesOfAttrs(occs) : n # <<>> /\ LetterBeforeDigit(n) /\ NameCharsOk(n)
  /\ \A n \in NamesOfKids(occs) : PosC02(FlatKids(occs, n))

HasColon(n) == \E i \in 1..Len(n) : n[i] = ":"
XmlnsStr == <<"x","m","l","n","s">>
RECURSIVE PosC13(_)
PosC13(occs) ==
  /\ \A o \in 1..Len(occs) : ~(HasData(occs[o]) /\ HasKids(occs[o]))          \* no mixed content
  /\ \A n \in NamesOfKids(occs) \cup NamesOfAttrs(occs) : ~HasColon(n) /\ n # XmlnsStr /\ LetterBeforeDigit(n) /\ NameCharsOk(n)
  /\ NamesOfKids(occs) \cap NamesOfAttrs(occs) = {}                            \* attribute names distinct from child names
  /\ \A o \in 1..Len(occs) : Adjacent(occs[o])                                 \* repeated children adjacent
  /\ \A n \in NamesOfKids(occs) : PosC13(FlatKids(occs, n))


\* the document element into the first struct
DeserDoc(ss, root, kind) == IF ss = <<>> THEN Res(FALSE, FALSE, 0, 0) ELSE DeserElem(ss, 1, root, kind)
=============================================================================
