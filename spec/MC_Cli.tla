------------------------------- MODULE MC_Cli -------------------------------
(* every combination of input kind, output kind, --parser, --derive and --sort; the run is stepped in program  *)
(* order and the sentences of C12 are invariants of every intermediate and terminal state                      *)
EXTENDS Cli, Json

CONSTANTS Derives, Emit
VARIABLE s

Init == \E i \in InputKinds, o \in OutKinds, p \in {"quick-xml-de", "serde-xml-rs", "ABSENT"}, d \in Derives \cup {AbsentDerive},
             so \in {"unsorted", "name", "ABSENT"} :
           s = Start(i, o, p, d, so)
Next == ~Terminal(s) /\ s' = Step(s)
Spec == Init /\ [][Next]_s /\ WF_s(Next)

InvC12 == C12(s) /\ InputFaultLeavesOutput(s) /\ StdoutDiscipline(s)
Terminates == <>Terminal(s)

EmitCase == (Emit /\ Terminal(s)) => PrintT("REPLAY " \o ToJson(s))
=============================================================================
