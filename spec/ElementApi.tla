----------------------------- MODULE ElementApi -----------------------------
(***************************************************************************)
(* The public construction API of Element<T> as a state machine (C16):     *)
(* one tree, next-state = any public construction operation applied at any *)
(* path.  Operations are records                                           *)
(*   [op |-> "new",      name, attrs]            Element::new              *)
(*   [op |-> "add",      path, name, attrs]      add_unique_child(new(..)) *)
(*   [op |-> "optional", path, name]             set_child_optional        *)
(*   [op |-> "remove",   path, name]             remove_child              *)
(*   [op |-> "merge",    path, attrs (tagged)]   merge_attr                *)
(*   [op |-> "multiple", path]                   set_multiple              *)
(*   [op |-> "text",     path]                   text = Some(..)           *)
(* path = names of the children to descend into (get_child_mut, i.e. the   *)
(* first child with that name).                                            *)
(***************************************************************************)
EXTENDS ElementOps, TLC

\* the operation applied to the addressed element
Do(e, o) ==
  CASE o.op = "add" -> AddUniqueChild(e, New(o.name, o.attrs))
    [] o.op = "optional" -> SetChildOptional(e, o.name)
    [] o.op = "remove" -> RemoveChild(e, o.name)
    [] o.op = "merge" -> MergeAttr(e, o.attrs)
    [] o.op = "multiple" -> SetMultiple(e)
    [] o.op = "text" -> SetText(e)
    [] o.op = "increment" -> Increment(e)

RECURSIVE PathExists(_, _)
PathExists(e, path) ==
  path = <<>> \/ (HasChild(e, path[1]) /\ PathExists(GetChild(e, path[1]).e, Tail(path)))

RECURSIVE ApplyAt(_, _, _)
ApplyAt(e, path, o) ==
  IF path = <<>> THEN Do(e, o)
  ELSE LET i == ChildIdx(e, path[1]) IN [e EXCEPT !.ch[i].e = ApplyAt(@, Tail(path), o)]

RECURSIVE ElemAt(_, _)
ElemAt(e, path) == IF path = <<>> THEN e ELSE ElemAt(GetChild(e, path[1]).e, Tail(path))

\* all paths to elements of the tree up to a depth
RECURSIVE PathsOf(_, _)
PathsOf(e, d) ==
  {<<>>} \cup (IF d = 0 THEN {}
               ELSE UNION {{<<e.ch[i].e.name>> \o p : p \in PathsOf(e.ch[i].e, d - 1)} : i \in 1..Len(e.ch)})

-----------------------------------------------------------------------------
(* The statement of C16 per operation, on a before/after pair of trees     *)
(* (used on the model by MC_ElementApi and on the real code by ApiTrace).  *)
(* Trees are compared as the property speaks of them: children as a map    *)
(* from name to (necessity, subtree), i.e. without internal order and      *)
(* without the private position.                                           *)

RECURSIVE Canon(_)
Canon(e) ==
  [name |-> e.name, text |-> e.text, sa |-> e.sa, attrs |-> e.attrs,      \* not the count: C16 says nothing about it
   ch |-> {[t |-> e.ch[i].t, e |-> Canon(e.ch[i].e)] : i \in 1..Len(e.ch)}]

RECURSIVE UniqueNames(_)
UniqueNames(e) == NoDup(ChildNames(e)) /\ \A i \in 1..Len(e.ch) : UniqueNames(e.ch[i].e)

KidsBut(e, n) == {[t |-> e.ch[i].t, e |-> Canon(e.ch[i].e)] : i \in {j \in 1..Len(e.ch) : e.ch[j].e.name # n}}
SameBut(a, b, field) ==
  /\ a.name = b.name
  /\ field = "text" \/ a.text = b.text
  /\ field = "sa" \/ a.sa = b.sa
  /\ field = "attrs" \/ a.attrs = b.attrs
  /\ field = "ch" \/ Canon(a).ch = Canon(b).ch

\* the effect the statement demands of operation o on the addressed element (a = before, b = after)
Effect(a, b, o) ==
  CASE o.op = "add" ->
         IF HasChild(a, o.name) THEN Canon(b) = Canon(a)                      \* adding a present name changes nothing
         ELSE /\ SameBut(a, b, "ch")
              /\ KidsBut(b, o.name) = Canon(a).ch
              /\ HasChild(b, o.name) /\ GetChild(b, o.name).t = "M"
              /\ Canon(GetChild(b, o.name).e) = Canon(New(o.name, o.attrs))
    [] o.op = "optional" ->
         /\ SameBut(a, b, "ch")
         /\ KidsBut(b, o.name) = KidsBut(a, o.name)
         /\ HasChild(a, o.name) <=> HasChild(b, o.name)
         /\ HasChild(a, o.name) => /\ GetChild(b, o.name).t = "O"
                                   /\ Canon(GetChild(b, o.name).e) = Canon(GetChild(a, o.name).e)   \* subtree preserved
    [] o.op = "remove" ->
         /\ SameBut(a, b, "ch")
         /\ ~HasChild(b, o.name)                                               \* the child with the given name is gone
         /\ Canon(b).ch = KidsBut(a, o.name)                                   \* and nothing else
    [] o.op = "merge" -> SameBut(a, b, "attrs") /\ b.attrs = Merge(a.attrs, o.attrs)
    [] o.op = "multiple" -> SameBut(a, b, "sa") /\ ~b.sa
    [] o.op = "text" -> SameBut(a, b, "text") /\ b.text
    [] o.op = "increment" -> SameBut(a, b, "cnt")

\* nothing outside the addressed element changes
RECURSIVE OnlyAt(_, _, _, _)
OnlyAt(a, b, path, o) ==
  IF path = <<>> THEN Effect(a, b, o)
  ELSE /\ SameBut(a, b, "ch")
       /\ KidsBut(a, path[1]) = KidsBut(b, path[1])
       /\ HasChild(b, path[1]) /\ GetChild(a, path[1]).t = GetChild(b, path[1]).t
       /\ OnlyAt(GetChild(a, path[1]).e, GetChild(b, path[1]).e, Tail(path), o)

\* the domain of C16: trees whose child names are unique and operations with duplicate-free attribute lists
OpInDomain(o) ==
  CASE o.op \in {"new", "add"} -> NoDup(o.attrs)
    [] o.op = "merge" -> DupFree(o.attrs)
    [] OTHER -> TRUE
=============================================================================
