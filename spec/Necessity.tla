----------------------------- MODULE Necessity -----------------------------
(***************************************************************************)
(* src/necessity.rs: tagged items and the public list merge.               *)
(*                                                                         *)
(* An item is a record [t |-> "M" | "O", v |-> value]  (Mandatory /        *)
(* Optional).  Merge is transcribed loop by loop from merge_necessity      *)
(* (necessity.rs:65-108); the predicates below it are property C15 as      *)
(* stated, independent of how Merge computes its result.                   *)
(***************************************************************************)
EXTENDS Naturals, Sequences, FiniteSets

Man(v) == [t |-> "M", v |-> v]
Opt(v) == [t |-> "O", v |-> v]

Vals(s) == {s[i].v : i \in DOMAIN s}

\* index of the first item with value v, 0 if there is none  (the `break` in the inner loops)
FirstIdx(s, v) ==
  LET I == {i \in DOMAIN s : s[i].v = v}
  IN IF I = {} THEN 0 ELSE CHOOSE i \in I : \A j \in I : i <= j

\* first loop (necessity.rs:71-91): every item of vec, Mandatory only if its first match in other
\* exists and both are Mandatory
Pass1(vec, other) ==
  [i \in 1..Len(vec) |->
     LET j == FirstIdx(other, vec[i].v)
     IN IF j # 0 /\ other[j].t = "M" /\ vec[i].t = "M" THEN Man(vec[i].v) ELSE Opt(vec[i].v)]

\* second loop (necessity.rs:93-105): items of other that are not yet in the result, as Optional
RECURSIVE Pass2(_, _)
Pass2(result, rest) ==
  IF rest = <<>> THEN result
  ELSE LET h == Head(rest)
       IN Pass2(IF h.v \in Vals(result) THEN result ELSE Append(result, Opt(h.v)), Tail(rest))

Merge(vec, other) == Pass2(Pass1(vec, other), other)

-----------------------------------------------------------------------------
(* Property C15, for duplicate-free lists a and b and a candidate result r *)

DupFree(s) == \A i, j \in DOMAIN s : s[i].v = s[j].v => i = j

TagIn(s, v) == s[FirstIdx(s, v)].t

\* each distinct item of either list exactly once, and nothing else
ExactlyOnce(a, b, r) == DupFree(r) /\ Vals(r) = Vals(a) \cup Vals(b)

\* mandatory iff mandatory in both lists
MandIffBoth(a, b, r) ==
  \A k \in DOMAIN r :
     r[k].t = "M" <=> /\ r[k].v \in Vals(a) /\ TagIn(a, r[k].v) = "M"
                      /\ r[k].v \in Vals(b) /\ TagIn(b, r[k].v) = "M"

ValSeq(s) == [i \in DOMAIN s |-> s[i].v]

RECURSIVE Filter(_, _)
Filter(s, S) == IF s = <<>> THEN <<>>
                ELSE IF Head(s) \in S THEN <<Head(s)>> \o Filter(Tail(s), S) ELSE Filter(Tail(s), S)

\* items of the first list keep their order and come first, then the items only in the second
\* list in their original relative order
StableOrder(a, b, r) ==
  ValSeq(r) = ValSeq(a) \o Filter(ValSeq(b), Vals(b) \ Vals(a))

C15(a, b, r) == ExactlyOnce(a, b, r) /\ MandIffBoth(a, b, r) /\ StableOrder(a, b, r)
=============================================================================
