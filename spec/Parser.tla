------------------------------- MODULE Parser -------------------------------
(***************************************************************************)
(* src/parser.rs: into_struct / extend_struct / build_struct / parse_tag / *)
(* count_children / tag_optional_children as an event-driven machine.      *)
(*                                                                         *)
(* One frame of `stack` per open build_struct invocation (the bottom frame *)
(* owns the synthetic "root" wrapper).  One action per match arm / call    *)
(* boundary.  The implementation-shaped operators read only what the code  *)
(* reads; the ghost variables (gstack, doms) rebuild a DOM of the consumed *)
(* documents and are read only by the properties.                          *)
(*                                                                         *)
(* Events are records [kind, name, attrs, fault]:                          *)
(*   kind  : Start Empty Text CData End Eof Comment Decl PI DocType Err    *)
(*   name  : element name (Start/Empty), otherwise ""                      *)
(*   attrs : attribute keys read successfully, in document order           *)
(*   fault : "none", or the first thing that is wrong with the event in    *)
(*           the order the code evaluates it: "name" (element name not     *)
(*           UTF-8), "attr" (malformed / duplicated attribute), "key"      *)
(*           (attribute key not UTF-8), "utf8" (text / CDATA not UTF-8)    *)
(***************************************************************************)
EXTENDS ElementOps, Schema, TLC

CONSTANT HashOrder   \* TRUE: the order of the demotions that tag_optional_children takes from a HashMap
                     \*       iteration is an arbitrary permutation (the pinned commit);
                     \* FALSE: one pass over the children in their internal order (the repaired code)

VARIABLES
  stack,    \* frames [elem, known, pn, snap, chk]
  phase,    \* "idle" | "reading" | "returned"
  op,       \* "parse" | "extend" | "none"
  result,   \* [st |-> "none"] | [st |-> "ok", tree] | [st |-> "err", kind]
  prev,     \* the tree handed to the running / last extend ([st |-> "none"] if none)
  atEof,    \* the reader has reported Eof (it will report nothing else)
  gstack,   \* ghost: open DOM nodes
  doms      \* ghost: documents consumed by calls that returned Ok (sequences of top-level items)

pvars == <<stack, phase, op, result, prev, atEof, gstack, doms>>

Ev(kind, name, attrs, fault) == [kind |-> kind, name |-> name, attrs |-> attrs, fault |-> fault]
IgnoredKinds == {"Comment", "Decl", "PI", "DocType"}

None == [st |-> "none"]
Ok(t) == [st |-> "ok", tree |-> t]
Err(k) == [st |-> "err", kind |-> k]

Top == stack[Len(stack)]
Depth == Len(stack)

Frame(e, pn, snap, chk) == [elem |-> e, known |-> {}, pn |-> pn, snap |-> snap, chk |-> chk]

-----------------------------------------------------------------------------
(* count_children (parser.rs:139-152): name |-> count of the *Mandatory*   *)
(* children of the already known element, as a set of pairs                *)
Snapshot(e) == {<<e.ch[i].e.name, e.ch[i].e.cnt>> : i \in {j \in 1..Len(e.ch) : e.ch[j].t = "M"}}
SnapNames(s) == {p[1] : p \in s}
SnapCnt(s, n) == (CHOOSE p \in s : p[1] = n)[2]

(* tag_optional_children (parser.rs:157-193): the list `to_optional`.      *)
(* first loop: snapshot names whose count is unchanged; second loop:       *)
(* Mandatory children that are not in the snapshot (children order).       *)
Unchanged(par, snap) ==
  SelectSeq(ChildNames(par), LAMBDA n : n \in SnapNames(snap) /\ SnapCnt(snap, n) = GetChild(par, n).e.cnt)
Fresh(par, snap) ==
  LET m == SelectSeq(par.ch, LAMBDA c : c.t = "M" /\ c.e.name \notin SnapNames(snap))
  IN [i \in 1..Len(m) |-> m[i].e.name]
\* the repaired code: one pass over the children
OnePass(par, snap) ==
  LET m == SelectSeq(par.ch, LAMBDA c : c.t = "M" /\ (c.e.name \notin SnapNames(snap) \/ SnapCnt(snap, c.e.name) = c.e.cnt))
  IN [i \in 1..Len(m) |-> m[i].e.name]

Perms(s) == {p \in [1..Len(s) -> 1..Len(s)] : \A i, j \in 1..Len(s) : p[i] = p[j] => i = j}
ToOptionalChoices(par, snap) ==
  IF HashOrder
  THEN LET u == Unchanged(par, snap) IN {[i \in 1..Len(u) |-> u[p[i]]] \o Fresh(par, snap) : p \in Perms(u)}
  ELSE {OnePass(par, snap)}

\* `while let Some(name) = to_optional.pop()`: demotions in reverse order of the list
RECURSIVE DemoteAll(_, _)
DemoteAll(p, names) ==
  IF names = <<>> THEN p
  ELSE DemoteAll(SetChildOptional(p, names[Len(names)]), SubSeq(names, 1, Len(names) - 1))

\* tag_optional_children(root, n, snap) with the chosen list
TagOptional(root, n, names) ==
  LET i == ChildIdx(root, n)
  IN IF i = 0 THEN root ELSE [root EXCEPT !.ch[i].e = DemoteAll(@, names)]

(* parse_tag up to the recursive call (parser.rs:206-250)                  *)
TakeChild(root, n, attrs, known) ==
  LET i == ChildIdx(root, n)
  IN IF i = 0
     THEN [root |-> root, existed |-> FALSE,
           child |-> IF n \in known THEN SetMultiple(New(n, attrs)) ELSE New(n, attrs)]
     ELSE LET c0 == MergeAttr(root.ch[i].e, [k \in 1..Len(attrs) |-> Man(attrs[k])])
              c1 == IF n \in known THEN SetMultiple(c0) ELSE c0
          IN [root |-> RemoveChild(root, n), existed |-> TRUE, child |-> Increment(c1)]

(* parse_tag after the recursive call + tag_optional_children, in the      *)
(* frame of the parent (parser.rs:255-260, 116-118 / 124)                  *)
ReturnInto(par, f, names) ==
  LET root1 == AddUniqueChild(par.elem, f.elem)
      root2 == IF f.chk THEN TagOptional(root1, f.pn, names) ELSE root1
  IN [par EXCEPT !.elem = root2, !.known = @ \cup {f.pn}]

\* the element whose children are demoted when frame f returns into par
DemotionParent(par, f) == GetChild(AddUniqueChild(par.elem, f.elem), f.pn).e

-----------------------------------------------------------------------------
Init ==
  /\ stack = <<>> /\ phase = "idle" /\ op = "none" /\ result = None /\ prev = None
  /\ atEof = FALSE /\ gstack = <<>> /\ doms = <<>>

GhostRoot == [name |-> "#doc", attrs |-> <<>>, items |-> <<>>]

\* into_struct (parser.rs:47-52)
BeginParse ==
  /\ phase \in {"idle", "returned"}
  /\ stack' = << Frame(New("root", <<>>), "root", {}, FALSE) >>
  /\ phase' = "reading" /\ op' = "parse" /\ result' = None /\ prev' = None /\ atEof' = FALSE
  /\ gstack' = <<GhostRoot>>
  /\ doms' = <<>>

\* extend_struct (parser.rs:69-79) with the tree returned by the previous call
BeginExtend ==
  /\ phase = "returned" /\ result.st = "ok"
  /\ stack' = << Frame(AddUniqueChild(New("root", <<>>), result.tree), "root", {}, FALSE) >>
  /\ phase' = "reading" /\ op' = "extend" /\ prev' = result /\ result' = None /\ atEof' = FALSE
  /\ gstack' = <<GhostRoot>>
  /\ UNCHANGED doms

Reading == phase = "reading"

\* any failure: `?` unwinds every frame; the tree under construction (and, for extend, the tree handed in) is gone
Fail(kind) ==
  /\ result' = Err(kind) /\ phase' = "returned" /\ stack' = <<>> /\ gstack' = <<>>
  /\ UNCHANGED <<op, prev, atEof, doms>>

FaultKind(f) == CASE f = "name" -> "Utf8" [] f = "key" -> "Utf8" [] f = "utf8" -> "Utf8" [] f = "attr" -> "Attr"

\* Event::Start (parser.rs:109-118 with parse_tag up to the recursion)
EvStart(ev) ==
  /\ Reading /\ ~atEof /\ ev.kind = "Start"
  /\ IF ev.fault # "none" THEN Fail(FaultKind(ev.fault))
     ELSE LET f == Top
              i == ChildIdx(f.elem, ev.name)
              snap == IF i = 0 THEN {} ELSE Snapshot(f.elem.ch[i].e)
              tk == TakeChild(f.elem, ev.name, ev.attrs, f.known)
          IN /\ stack' = Append([stack EXCEPT ![Len(stack)].elem = tk.root], Frame(tk.child, ev.name, snap, i # 0))
             /\ gstack' = Append(gstack, [name |-> ev.name, attrs |-> ev.attrs, items |-> <<>>])
             /\ UNCHANGED <<phase, op, result, prev, atEof, doms>>

\* Event::Empty (parser.rs:121-125): no frame, empty snapshot, always tagged
EvEmpty(ev) ==
  /\ Reading /\ ~atEof /\ ev.kind = "Empty"
  /\ IF ev.fault # "none" THEN Fail(FaultKind(ev.fault))
     ELSE LET f == Top
              tk == TakeChild(f.elem, ev.name, ev.attrs, f.known)
              fr == Frame(tk.child, ev.name, {}, TRUE)
              par == [f EXCEPT !.elem = tk.root]
          IN /\ \E names \in ToOptionalChoices(DemotionParent(par, fr), {}) :
                   stack' = [stack EXCEPT ![Len(stack)] = ReturnInto(par, fr, names)]
             /\ gstack' = [gstack EXCEPT ![Len(gstack)].items = Append(@, El(ev.name, ev.attrs, <<>>, "empty"))]
             /\ UNCHANGED <<phase, op, result, prev, atEof, doms>>

\* Event::Text / Event::CData (parser.rs:119-120)
EvText(ev) ==
  /\ Reading /\ ~atEof /\ ev.kind \in {"Text", "CData"}
  /\ IF ev.fault # "none" THEN Fail(FaultKind(ev.fault))
     ELSE /\ stack' = [stack EXCEPT ![Len(stack)].elem = SetText(@)]
          /\ gstack' = [gstack EXCEPT ![Len(gstack)].items = Append(@, TextItem(ev.kind = "CData"))]
          /\ UNCHANGED <<phase, op, result, prev, atEof, doms>>

\* Event::Comment / Decl / PI / DocType (parser.rs:127-130): nothing happens
EvIgnored(ev) ==
  /\ Reading /\ ~atEof /\ ev.kind \in IgnoredKinds
  /\ gstack' = [gstack EXCEPT ![Len(gstack)].items = Append(@, IgnItem(ev.kind))]
  /\ UNCHANGED <<stack, phase, op, result, prev, atEof, doms>>

\* Err(e) (parser.rs:131)
EvReaderErr(ev) == Reading /\ ~atEof /\ ev.kind = "Err" /\ Fail("QuickXml")

\* into_struct / extend_struct after build_struct returned (parser.rs:54-66, 81-93)
Finish(wrapper) ==
  /\ IF wrapper.ch = <<>> THEN result' = Err("Parsing")
     ELSE result' = Ok(wrapper.ch[1].e)
  /\ doms' = IF wrapper.ch = <<>> THEN doms ELSE Append(doms, gstack[1].items)
  /\ phase' = "returned" /\ stack' = <<>> /\ gstack' = <<>>
  /\ UNCHANGED <<op, prev>>

\* Event::End / Event::Eof (parser.rs:126): the current build_struct invocation returns
EvClose(ev) ==
  /\ Reading /\ ev.kind \in {"End", "Eof"} /\ (atEof => ev.kind = "Eof")
  /\ atEof' = (ev.kind = "Eof")
  /\ IF Depth = 1 THEN Finish(stack[1].elem)
     ELSE LET f == Top
              par == stack[Len(stack) - 1]
              g == gstack[Len(gstack)]
          IN /\ \E names \in ToOptionalChoices(DemotionParent(par, f), f.snap) :
                   stack' = Append(SubSeq(stack, 1, Len(stack) - 2), ReturnInto(par, f, names))
             /\ gstack' = Append(SubSeq(gstack, 1, Len(gstack) - 2),
                                 [gstack[Len(gstack) - 1] EXCEPT !.items = Append(@, El(g.name, g.attrs, g.items, "pair"))])
             /\ UNCHANGED <<phase, op, result, prev, doms>>

Step(ev) == EvStart(ev) \/ EvEmpty(ev) \/ EvText(ev) \/ EvIgnored(ev) \/ EvReaderErr(ev) \/ EvClose(ev)

-----------------------------------------------------------------------------
(* Properties                                                              *)

\* a consumed document that is a well-formed single-rooted document
RootsOf(d) == Elems(d)
WFDoc(d) == Len(RootsOf(d)) = 1
\* the element-less documents (empty input, only prolog/comments) contribute no occurrence
Roots == LET ds == SelectSeq(doms, LAMBDA d : Len(RootsOf(d)) >= 1) IN [i \in 1..Len(ds) |-> RootsOf(ds[i])[1]]
InDomain ==
  /\ \A i \in 1..Len(doms) : Len(RootsOf(doms[i])) <= 1
  /\ \A i, j \in 1..Len(Roots) : Roots[i].name = Roots[j].name

\* the observable schema of a tree: everything but count, text content and internal order
RECURSIVE Proj(_)
Proj(e) ==
  LET kids == ByPos(e)
  IN [text |-> e.text,
      attrs |-> [k \in 1..Len(e.attrs) |-> [n |-> e.attrs[k].v, opt |-> e.attrs[k].t = "O"]],
      kids |-> [k \in 1..Len(kids) |-> [n |-> kids[k].e.name, opt |-> kids[k].t = "O", multi |-> ~kids[k].e.sa,
                                         ty |-> Proj(kids[k].e)]]]

Returned == phase = "returned"
ReturnedOk == Returned /\ result.st = "ok"

\* C03 (and the parser half of C01, C06, C09): the returned tree is exactly the schema the documents determine
Exact == (ReturnedOk /\ InDomain /\ Roots # <<>>) => Proj(result.tree) = TyOf(Roots)

\* C01 on the inferred flags: the schema admits every document it was inferred from
Sound == (ReturnedOk /\ InDomain) => \A i \in 1..Len(Roots) : Admits(Proj(result.tree), Roots[i])

\* the mechanism at every intermediate event: unique names, contiguous positions (one child of each open
\* frame's parent is out of it while its own frame is open), counts
OpenWF(e, missing) ==
  /\ WF(e)
  /\ LET ps == {e.ch[i].e.pos : i \in 1..Len(e.ch)}
     IN /\ Cardinality(ps) = Len(e.ch)
        /\ ps \subseteq 0..(Len(e.ch) + missing - 1)
  /\ \A i \in 1..Len(e.ch) : PosWF(e.ch[i].e)
StackWF ==
  \A k \in 1..Len(stack) :
     /\ OpenWF(stack[k].elem, IF k < Len(stack) /\ stack[k + 1].chk THEN 1 ELSE 0)
     /\ k > 1 => stack[k].pn = stack[k].elem.name
     /\ k > 1 => ~HasChild(stack[k - 1].elem, stack[k].pn)
ResultWF == ReturnedOk => WF(result.tree) /\ PosWF(result.tree)

\* C08 (design level): Err exactly when a faulty event / reader error was consumed or a parse saw no element
TypeOK ==
  /\ phase \in {"idle", "reading", "returned"}
  /\ op \in {"none", "parse", "extend"}
  /\ result.st \in {"none", "ok", "err"}
  /\ (phase = "reading") <=> (stack # <<>>)
  /\ (phase = "returned") <=> (result.st # "none")
  /\ Len(gstack) = Len(stack)
NoRootOnlyForParse == (Returned /\ result.st = "err" /\ result.kind = "Parsing") => op = "parse"

\* C06: an extension never drops a field, never turns an Option into a required field or a Vec into a single one
Monotone == (ReturnedOk /\ op = "extend" /\ prev.st = "ok" /\ prev.tree.name = result.tree.name)
               => Mono(Proj(prev.tree), Proj(result.tree))
\* C06: an element-less document changes nothing at all (not even counts or internal order)
NoOpOnEmptyDoc ==
  (ReturnedOk /\ op = "extend" /\ prev.st = "ok" /\ doms # <<>> /\ Elems(doms[Len(doms)]) = <<>>)
     => result.tree = prev.tree

\* C11 at the level of the machine: in every reading state <x a../> and <x a..></x> lead to the same full
\* internal state, and so do Text and CData
AfterEmpty(f, n, attrs) ==
  LET tk == TakeChild(f.elem, n, attrs, f.known)
      fr == Frame(tk.child, n, {}, TRUE)
      par == [f EXCEPT !.elem = tk.root]
  IN ReturnInto(par, fr, OnePass(DemotionParent(par, fr), {}))
AfterStartEnd(f, n, attrs) ==
  LET i == ChildIdx(f.elem, n)
      snap == IF i = 0 THEN {} ELSE Snapshot(f.elem.ch[i].e)
      tk == TakeChild(f.elem, n, attrs, f.known)
      fr == Frame(tk.child, n, snap, i # 0)
      par == [f EXCEPT !.elem = tk.root]
  IN ReturnInto(par, fr, OnePass(DemotionParent(par, fr), snap))
FormInsensitiveFor(names, attrLists) ==
  (Reading /\ ~HashOrder) =>
     \A n \in names, a \in attrLists : AfterEmpty(Top, n, a) = AfterStartEnd(Top, n, a)
=============================================================================
