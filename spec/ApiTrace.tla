------------------------------ MODULE ApiTrace ------------------------------
(***************************************************************************)
(* Trace validation of the public Element API (C16), impl -> spec.         *)
(* Each line is one public operation executed on a real Element<String>:   *)
(*   {"ev":"Op","op":{..},"before":view,"after":view}   (ev "Reset" starts *)
(* a new tree).  A step is accepted iff child names stay unique and the    *)
(* operation had exactly the effect the statement demands (ElementApi!     *)
(* Effect) at the addressed element and nowhere else; the chain is bound   *)
(* by requiring that each `before` is the previous `after`.                *)
(***************************************************************************)
EXTENDS ElementApi, Json, IOUtils

Rec == ndJsonDeserialize(IOEnv.TRACE)

VARIABLES l, cur
tvars == <<l, cur>>

NoTree == [none |-> TRUE]
Init == l = 1 /\ cur = NoTree

Reset == Rec[l].ev = "Reset" /\ cur' = NoTree /\ l' = l + 1

\* get_child / get_child_mut at the addressed element, for every name of interest
LookupsOK(el, lks) ==
  \A i \in 1..Len(lks) :
     LET k == lks[i]
     IN /\ k.found = HasChild(el, k.name) /\ k.found_mut = k.found
        /\ k.found => /\ k.got = k.name /\ k.got_mut = k.name
                       /\ k.t = GetChild(el, k.name).t /\ k.t_mut = k.t

OpStep ==
  LET e == Rec[l]
      o == e.op
  IN /\ e.ev = "Op"
     /\ IF o.op = "new"
        THEN Canon(e.after) = Canon(New(o.name, o.attrs))
        ELSE /\ cur = e.before                                   \* the trace is a chain
             /\ (UniqueNames(e.before) /\ OpInDomain(o)) =>
                   /\ UniqueNames(e.after)                       \* child names stay unique
                   /\ OnlyAt(e.before, e.after, o.path, o)       \* the demanded effect, only there
                   /\ LookupsOK(ElemAt(e.after, o.path), e.lookups) \* lookup addresses the child with the given name
     /\ cur' = e.after
     /\ l' = l + 1

Next == l <= Len(Rec) /\ (Reset \/ OpStep)
Spec == Init /\ [][Next]_tvars

Accepted ==
  LET matched == TLCGet("stats").diameter - 1
  IN IF matched = Len(Rec) THEN TRUE
     ELSE PrintT("TRACE-REJECTED " \o ToJson([line |-> matched + 1, event |-> Rec[matched + 1]])) /\ FALSE
=============================================================================
