------------------------------ MODULE Strings ------------------------------
(***************************************************************************)
(* convert_string-0.2.0 src/impls.rs and element.rs:432-437, transcribed   *)
(* loop by loop.  A string is a sequence of one-character strings over     *)
(* Chars!Alphabet.                                                         *)
(***************************************************************************)
EXTENDS Chars, Integers, SequencesExt, FiniteSets


\* flatten a sequence of strings
RECURSIVE Concat(_)
Concat(ss) == IF ss = <<>> THEN <<>> ELSE Head(ss) \o Concat(Tail(ss))

\* position of the first ":" (0 if none)
ColonIdx(s) ==
  LET I == {i \in 1..Len(s) : s[i] = ":"} IN IF I = {} THEN 0 ELSE CHOOSE i \in I : \A j \in I : i <= j

\* ConvertString::remove_namespace: the part after the first colon
RemoveNamespace(s) == LET i == ColonIdx(s) IN IF i = 0 THEN s ELSE SubSeq(s, i + 1, Len(s))

\* element.rs starts_with_xmlns: the text up to and including the first colon is "xmlns:"
Xmlns == <<"x", "m", "l", "n", "s", ":">>
StartsWithXmlns(s) == LET i == ColonIdx(s) IN i # 0 /\ SubSeq(s, 1, i) = Xmlns

\* String::replace(':', "_")
ReplaceColon(s) == [i \in 1..Len(s) |-> IF s[i] = ":" THEN "_" ELSE s[i]]

\* to_pascal_case: state (result, capitalize_next, last_uppercase)
RECURSIVE PascalLoop(_, _, _, _, _)
PascalLoop(s, i, res, cap, lastUp) ==
  IF i > Len(s) THEN res
  ELSE LET c == s[i]
       IN IF IsAlnum(c)
          THEN IF cap \/ (IsUpper(c) /\ ~lastUp)
               THEN PascalLoop(s, i + 1, res \o UpperOf(c), FALSE, IsUpper(c))
               ELSE PascalLoop(s, i + 1, res \o LowerOf(c), cap, IsUpper(c))
          ELSE PascalLoop(s, i + 1, res, TRUE, IsUpper(c))
ToPascal(s) == PascalLoop(s, 1, <<>>, TRUE, FALSE)

\* to_snake_case: state (result, last_uppercase, last_underscore)
RECURSIVE SnakeLoop(_, _, _, _, _)
SnakeLoop(s, i, res, lastUp, lastUnd) ==
  IF i > Len(s) THEN res
  ELSE LET c == s[i]
       IN IF IsUpper(c)
          THEN SnakeLoop(s, i + 1,
                         (IF res # <<>> /\ ~lastUp /\ ~lastUnd THEN Append(res, "_") ELSE res) \o LowerOf(c),
                         TRUE, FALSE)
          ELSE IF ~IsAlnum(c)
               THEN SnakeLoop(s, i + 1, IF ~lastUnd THEN Append(res, "_") ELSE res, FALSE, TRUE)
               ELSE SnakeLoop(s, i + 1, Append(res, c), FALSE, FALSE)
ToSnake(s) == SnakeLoop(s, 1, <<>>, FALSE, FALSE)


\* the KEYWORDS array of convert_string (strict and reserved keywords; weak keywords are not included)
Keywords == {
  <<"a","s">>, <<"b","r","e","a","k">>, <<"c","o","n","s","t">>, <<"c","o","n","t","i","n","u","e">>,
  <<"c","r","a","t","e">>, <<"e","l","s","e">>, <<"e","n","u","m">>, <<"e","x","t","e","r","n">>,
  <<"f","a","l","s","e">>, <<"f","n">>, <<"f","o","r">>, <<"i","f">>, <<"i","m","p","l">>, <<"i","n">>,
  <<"l","e","t">>, <<"l","o","o","p">>, <<"m","a","t","c","h">>, <<"m","o","d">>, <<"m","o","v","e">>,
  <<"m","u","t">>, <<"p","u","b">>, <<"r","e","f">>, <<"r","e","t","u","r","n">>, <<"s","e","l","f">>,
  <<"S","e","l","f">>, <<"s","t","a","t","i","c">>, <<"s","t","r","u","c","t">>, <<"s","u","p","e","r">>,
  <<"t","r","a","i","t">>, <<"t","r","u","e">>, <<"t","y","p","e">>, <<"u","n","s","a","f","e">>,
  <<"u","s","e">>, <<"w","h","e","r","e">>, <<"w","h","i","l","e">>, <<"a","s","y","n","c">>,
  <<"a","w","a","i","t">>, <<"d","y","n">>, <<"a","b","s","t","r","a","c","t">>, <<"b","e","c","o","m","e">>,
  <<"b","o","x">>, <<"d","o">>, <<"f","i","n","a","l">>, <<"m","a","c","r","o">>,
  <<"o","v","e","r","r","i","d","e">>, <<"p","r","i","v">>, <<"t","y","p","e","o","f">>,
  <<"u","n","s","i","z","e","d">>, <<"v","i","r","t","u","a","l">>, <<"y","i","e","l","d">>, <<"t","r","y">> }
IsKeyword(s) == s \in Keywords

\* to_valid_key(prefix)
ToValidKey(s, prefix) ==
  LET n == ToSnake(ReplaceColon(s))
  IN IF IsKeyword(n) THEN ToSnake(prefix) \o <<"_">> \o n ELSE n

EndsWith(s, suf) == Len(s) >= Len(suf) /\ SubSeq(s, Len(s) - Len(suf) + 1, Len(s)) = suf
StartsWith(s, pre) == Len(s) >= Len(pre) /\ SubSeq(s, 1, Len(pre)) = pre

\* byte-wise String order (code point order), used by sort_unstable_by_key(to_string)
RECURSIVE StrLess(_, _)
StrLess(a, b) ==
  IF b = <<>> THEN FALSE
  ELSE IF a = <<>> THEN TRUE
  ELSE IF CodeOf(Head(a)) # CodeOf(Head(b)) THEN CodeOf(Head(a)) < CodeOf(Head(b))
  ELSE StrLess(Tail(a), Tail(b))

\* decimal representation of a natural number as a string
RECURSIVE NatStr(_)
Digit(d) == <<"0","1","2","3","4","5","6","7","8","9">>[d + 1]
NatStr(n) == IF n < 10 THEN <<Digit(n)>> ELSE NatStr(n \div 10) \o <<Digit(n % 10)>>

-----------------------------------------------------------------------------
(* Rust lexical facts the properties refer to (C04)                        *)

\* XID_Start / XID_Continue restricted to the model alphabet: letters, digits (continue only), "_"
IsIdentStart(c) == IsLetter(c) \/ c = "_"
IsIdentContinue(c) == IsAlnum(c) \/ c = "_"
\* a legal, non-keyword identifier ("_" alone is not an identifier; `r#` is never emitted)
LegalIdent(s) ==
  /\ s # <<>>
  /\ IsIdentStart(s[1])
  /\ \A i \in 2..Len(s) : IsIdentContinue(s[i])
  /\ s # <<"_">>
  /\ ~IsKeyword(s)
=============================================================================
