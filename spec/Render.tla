------------------------------- MODULE Render -------------------------------
(***************************************************************************)
(* src/element.rs:135-428 and src/element/identifier.rs as coded:          *)
(* struct names (compute_name_hints / expand_name), field identifiers      *)
(* (identifier::Map) and the layout of to_serde_struct, as the sequence    *)
(*   RenderStructs(tree, opts) = << [derive, name, fields] >>              *)
(* with fields = << [hasren, ren, ident, opt, vec, base] >> in output      *)
(* order.  The second half of the module states the properties C04, C09,   *)
(* C10, C14, C16 as predicates over *any* such sequence, so that they can  *)
(* be evaluated both on this model and on the parsed output of the real    *)
(* renderer.                                                               *)
(*                                                                         *)
(* Element names, attribute names and option strings are strings in the    *)
(* sense of Strings.tla (sequences of one-character strings).              *)
(***************************************************************************)
EXTENDS Strings, ElementOps

\* options: [derive, prefix, textid, sort]  with sort \in {"Unsorted", "XmlName"}
QuickXmlDe == [derive |-> <<"S","e","r","i","a","l","i","z","e",","," ","D","e","s","e","r","i","a","l","i","z","e">>,
               prefix |-> <<"@">>, textid |-> <<"$","t","e","x","t">>, sort |-> "Unsorted"]
SerdeXmlRs == [QuickXmlDe EXCEPT !.prefix = <<>>]

StringTy == <<"S","t","r","i","n","g">>
TextStr == <<"t","e","x","t">>
TextContentStr == <<"t","e","x","t","_","c","o","n","t","e","n","t">>
AttrSuffix == <<"_","a","t","t","r">>

FormattedName(e) == ToPascal(e.name)

-----------------------------------------------------------------------------
(* compute_name_hints (element.rs:151-231)                                 *)

\* the own-first traces of all nodes of the tree (text-only children included), in fill order
RECURSIVE TracesOf(_, _)
TracesOf(e, above) ==
  LET t == <<FormattedName(e)>> \o above
      sub[i \in 0..Len(e.ch)] == IF i = 0 THEN <<>> ELSE sub[i - 1] \o TracesOf(e.ch[i].e, t)
  IN <<t>> \o sub[Len(e.ch)]

\* concatenation of the first i items of a trace
Buf(t, i) == Concat(SubSeq(t, 1, i))

MinimalDifferentLengths(vecs) ==
  LET lens == {Len(vecs[j]) : j \in 1..Len(vecs)}
      minlen == CHOOSE m \in lens : \A x \in lens : m <= x
      maxlen == CHOOSE m \in lens : \A x \in lens : m >= x
      good == {i \in 1..minlen : \A j, k \in 1..Len(vecs) : j # k => Buf(vecs[j], i) # Buf(vecs[k], i)}
  IN IF good # {} THEN CHOOSE i \in good : \A x \in good : i <= x ELSE maxlen

\* name |-> how many trailing path components make up the struct name
NameHints(tree) ==
  LET ts == TracesOf(tree, <<>>)
      names == {ts[i][1] : i \in 1..Len(ts)}
  IN [n \in names |->
        LET bucket == SelectSeq(ts, LAMBDA t : t[1] = n)
        IN IF Len(bucket) = 1 THEN 1 ELSE MinimalDifferentLengths(bucket)]

\* expand_name: path = PascalCase names from the root down to the element itself
ExpandName(path, hints) ==
  LET own == path[Len(path)]
  IN IF own \in DOMAIN hints
     THEN LET n == hints[own]
              start == IF Len(path) > n THEN Len(path) - n ELSE 0
          IN Concat(SubSeq(path, start + 1, Len(path)))
     ELSE <<>>

-----------------------------------------------------------------------------
(* identifier::Map::new (identifier.rs:35-91)                              *)

Reserved(res, n) == \E i \in 1..Len(res) : res[i] = n

\* the numeric-suffix loop: name, name_1, name_2, ...
RECURSIVE SuffixLoop(_, _, _)
SuffixLoop(res, name, i) ==
  LET cand == IF i = 0 THEN name ELSE name \o <<"_">> \o NatStr(i)
  IN IF Reserved(res, cand) THEN SuffixLoop(res, name, i + 1) ELSE cand

\* create_unused_name: returns the chosen identifier (the caller appends it to the reserved list)
RECURSIVE UnusedName(_, _, _)
UnusedName(res, name, ty) ==
  IF ty = "text" /\ name = TextStr /\ Reserved(res, name) THEN UnusedName(res, TextContentStr, ty)
  ELSE IF ty = "attr" /\ Reserved(res, name) /\ ~EndsWith(name, AttrSuffix) THEN UnusedName(res, name \o AttrSuffix, ty)
  ELSE SuffixLoop(res, name, 0)

\* children in *internal* order, then attributes in stored order, then the text identifier.
\* Result: [ch |-> sequence of identifiers parallel to e.ch, at |-> parallel to e.attrs, text |-> identifier]
IdentMap(e) ==
  LET chs[i \in 0..Len(e.ch)] ==
        IF i = 0 THEN [res |-> <<>>, ids |-> <<>>]
        ELSE LET prev == chs[i - 1]       \* bound once: TLC does not memoise recursive function applications
                 id == UnusedName(prev.res, ToValidKey(e.ch[i].e.name, e.name), "child")
             IN [res |-> Append(prev.res, id), ids |-> Append(prev.ids, id)]
      ats[i \in 0..Len(e.attrs)] ==
        IF i = 0 THEN [res |-> chs[Len(e.ch)].res, ids |-> <<>>]
        ELSE LET prev == ats[i - 1]
                 id == UnusedName(prev.res, ToValidKey(e.attrs[i].v, e.name), "attr")
             IN [res |-> Append(prev.res, id), ids |-> Append(prev.ids, id)]
      last == ats[Len(e.attrs)]
  IN [ch |-> chs[Len(e.ch)].ids, at |-> last.ids, text |-> UnusedName(last.res, TextStr, "text")]

\* the map is keyed by (real name, type): with duplicate names the last insertion wins
LastIdx(names, n) == CHOOSE i \in 1..Len(names) : names[i] = n /\ \A j \in 1..Len(names) : names[j] = n => j <= i

-----------------------------------------------------------------------------
(* inner_to_serde_struct (element.rs:256-428)                              *)

Field(hasren, ren, ident, opt, vec, base) ==
  [hasren |-> hasren, ren |-> ren, ident |-> ident, opt |-> opt, vec |-> vec, base |-> base]

\* indices of a sequence ordered by a key (sort_unstable_by_key; the instances here have no ties unless noted)
SortedIdx(n, Less(_, _)) == SortSeq([i \in 1..n |-> i], Less)

AttrOrder(e, opts) ==
  IF opts.sort = "XmlName"
  THEN SortedIdx(Len(e.attrs), LAMBDA i, j : StrLess(e.attrs[i].v, e.attrs[j].v))
  ELSE [i \in 1..Len(e.attrs) |-> i]

ChildOrder(e, opts) ==
  IF opts.sort = "XmlName"
  THEN SortedIdx(Len(e.ch), LAMBDA i, j : StrLess(e.ch[i].e.name, e.ch[j].e.name))
  ELSE SortedIdx(Len(e.ch), LAMBDA i, j : e.ch[i].e.pos < e.ch[j].e.pos)

AttrField(e, i, im, opts) ==
  LET real == e.attrs[i].v
      ident == im.at[LastIdx(AttrNames(e), real)]
      local == IF StartsWithXmlns(real) THEN real ELSE RemoveNamespace(real)
      serde == opts.prefix \o local
  IN Field(ident # serde, IF ident # serde THEN serde ELSE <<>>, ident, e.attrs[i].t = "O", FALSE, StringTy)

TextField(im, opts) == Field(TRUE, opts.textid, im.text, TRUE, FALSE, StringTy)

ChildField(e, i, im, path, hints) ==
  LET c == e.ch[i].e
      real == c.name
      plain == RemoveNamespace(real)
      ident == im.ch[LastIdx(ChildNames(e), real)]
      base == IF ContainsOnlyText(c) THEN StringTy ELSE ExpandName(Append(path, FormattedName(c)), hints)
  IN Field(ident # plain, IF ident # plain THEN plain ELSE <<>>, ident, e.ch[i].t = "O", ~c.sa, base)

RECURSIVE StructsOf(_, _, _, _)
StructsOf(e, above, hints, opts) ==
  LET path == Append(above, FormattedName(e))
      im == IdentMap(e)
      ao == AttrOrder(e, opts)
      co == ChildOrder(e, opts)
      fields == [k \in 1..Len(ao) |-> AttrField(e, ao[k], im, opts)]
                \o (IF e.text THEN <<TextField(im, opts)>> ELSE <<>>)
                \o [k \in 1..Len(co) |-> ChildField(e, co[k], im, path, hints)]
      sub[k \in 0..Len(co)] ==
        IF k = 0 THEN <<>>
        ELSE sub[k - 1] \o (IF ContainsOnlyText(e.ch[co[k]].e) THEN <<>> ELSE StructsOf(e.ch[co[k]].e, path, hints, opts))
  IN <<[derive |-> opts.derive, name |-> ExpandName(path, hints), fields |-> fields]>> \o sub[Len(co)]

RenderStructs(tree, opts) == StructsOf(tree, <<>>, NameHints(tree), opts)

\* the element paths (XML names, root first) of the structs, in the same order
RECURSIVE StructPaths(_, _, _)
StructPaths(e, above, opts) ==
  LET path == Append(above, e.name)
      co == ChildOrder(e, opts)
      sub[k \in 0..Len(co)] ==
        IF k = 0 THEN <<>>
        ELSE sub[k - 1] \o (IF ContainsOnlyText(e.ch[co[k]].e) THEN <<>> ELSE StructPaths(e.ch[co[k]].e, path, opts))
  IN <<path>> \o sub[Len(co)]

\* all element paths of the tree (text-only ones included)
RECURSIVE AllPaths(_, _)
AllPaths(e, above) ==
  LET path == Append(above, e.name)
      sub[i \in 0..Len(e.ch)] == IF i = 0 THEN <<>> ELSE sub[i - 1] \o AllPaths(e.ch[i].e, path)
  IN <<path>> \o sub[Len(e.ch)]

RECURSIVE AllNames(_)
AllNames(e) ==
  LET sub[i \in 0..Len(e.ch)] == IF i = 0 THEN {} ELSE sub[i - 1] \cup AllNames(e.ch[i].e)
  IN {e.name} \cup {e.attrs[i].v : i \in 1..Len(e.attrs)} \cup sub[Len(e.ch)]

-----------------------------------------------------------------------------
(* the text of the output (element.rs:256-428, the format strings), as a   *)
(* function of the struct records: what "a syntactically valid sequence of *)
(* Rust struct items" (C04) looks like for this renderer.  A text is such  *)
(* a sequence iff it is LayoutStructs(ss) for records ss whose names are    *)
(* legal (RenderProps!C04Tags); the harness's template parser proposes ss, *)
(* RenderTrace checks the equation.                                        *)

Indent == <<" "," "," "," ">>
TypeText(f) ==
  LET inner == IF f.vec THEN <<"V","e","c","<">> \o f.base \o <<">">> ELSE f.base
  IN IF f.opt THEN <<"O","p","t","i","o","n","<">> \o inner \o <<">">> ELSE inner
LayoutField(f) ==
  (IF f.hasren THEN Indent \o <<"#","[","s","e","r","d","e","(","r","e","n","a","m","e"," ","="," ","\"">> \o f.ren \o <<"\"",")","]","\n">> ELSE <<>>)
  \o Indent \o <<"p","u","b"," ">> \o f.ident \o <<":"," ">> \o TypeText(f) \o <<",","\n">>
LayoutStruct(s) ==
  LET body[i \in 0..Len(s.fields)] == IF i = 0 THEN <<>> ELSE body[i - 1] \o LayoutField(s.fields[i])
  IN (IF s.hasderive THEN <<"#","[","d","e","r","i","v","e","(">> \o s.derive \o <<")","]","\n">> ELSE <<>>)
     \o <<"p","u","b"," ","s","t","r","u","c","t"," ">> \o s.name \o <<" ","{","\n">> \o body[Len(s.fields)] \o <<"}","\n","\n">>
LayoutStructs(ss) ==
  LET acc[k \in 0..Len(ss)] == IF k = 0 THEN <<>> ELSE acc[k - 1] \o LayoutStruct(ss[k])
  IN acc[Len(ss)]
=============================================================================
