----------------------------- MODULE ElementOps -----------------------------
(***************************************************************************)
(* src/element.rs:32-133, 439-454: the element record and the pure         *)
(* operators of the public Element<T> API, as coded.                       *)
(*                                                                         *)
(* An element is a record                                                  *)
(*   [name, text, sa, cnt, pos, attrs, ch]                                 *)
(* name  : any value compared with = (a string, or a sequence of           *)
(*         one-character strings where the renderer is involved)           *)
(* text  : BOOLEAN   (text.is_some(); the content is never read)           *)
(* sa    : BOOLEAN   (standalone)                                          *)
(* cnt   : Nat       (count)                                               *)
(* pos   : -1 (None) or Nat (position)                                     *)
(* attrs : sequence of tagged names  [t |-> "M"|"O", v |-> name]           *)
(* ch    : sequence of tagged elements [t |-> "M"|"O", e |-> element],     *)
(*         in the *internal* order of the children vector                  *)
(***************************************************************************)
EXTENDS Necessity, Integers, SequencesExt

\* Element::new(name, attributes)
New(n, attrNames) ==
  [name |-> n, text |-> FALSE, sa |-> TRUE, cnt |-> 1, pos |-> -1,
   attrs |-> [i \in 1..Len(attrNames) |-> Man(attrNames[i])],
   ch |-> <<>>]

\* index of the first child named n, 0 if none  (iter().position / iter().find)
ChildIdx(e, n) ==
  LET I == {i \in 1..Len(e.ch) : e.ch[i].e.name = n}
  IN IF I = {} THEN 0 ELSE CHOOSE i \in I : \A j \in I : i <= j

HasChild(e, n) == ChildIdx(e, n) # 0
GetChild(e, n) == e.ch[ChildIdx(e, n)]          \* only meaningful if HasChild(e, n)

DropAt(s, i) == SubSeq(s, 1, i - 1) \o SubSeq(s, i + 1, Len(s))

\* add_unique on a children vector: Necessity equality is tag + inner equality, element equality is the name
AddUnique(ch, item) ==
  IF \E i \in 1..Len(ch) : ch[i].t = item.t /\ ch[i].e.name = item.e.name THEN ch ELSE Append(ch, item)

\* add_unique_child: no-op if a child of that name exists (Mandatory or Optional); otherwise the child
\* gets its position (number of children at first insertion) unless it already carries one
AddUniqueChild(p, c) ==
  IF HasChild(p, c.name) THEN p
  ELSE LET c2 == IF c.pos = -1 THEN [c EXCEPT !.pos = Len(p.ch)] ELSE c
       IN [p EXCEPT !.ch = AddUnique(p.ch, [t |-> "M", e |-> c2])]

\* remove_child: the parent without the first child named n
RemoveChild(p, n) ==
  LET i == ChildIdx(p, n) IN IF i = 0 THEN p ELSE [p EXCEPT !.ch = DropAt(p.ch, i)]

\* set_child_optional: remove + push to the end as Optional
SetChildOptional(p, n) ==
  LET i == ChildIdx(p, n)
  IN IF i = 0 THEN p
     ELSE [p EXCEPT !.ch = AddUnique(DropAt(p.ch, i), [t |-> "O", e |-> p.ch[i].e])]

MergeAttr(e, tagged) == [e EXCEPT !.attrs = Merge(e.attrs, tagged)]
SetMultiple(e) == [e EXCEPT !.sa = FALSE]
Increment(e) == [e EXCEPT !.cnt = @ + 1]
SetText(e) == [e EXCEPT !.text = TRUE]

\* contains_only_text: such a child is typed String instead of getting a struct
ContainsOnlyText(e) == e.text /\ e.attrs = <<>> /\ e.ch = <<>>

ChildNames(e) == [i \in 1..Len(e.ch) |-> e.ch[i].e.name]
AttrNames(e) == [i \in 1..Len(e.attrs) |-> e.attrs[i].v]

NoDup(s) == \A i, j \in DOMAIN s : s[i] = s[j] => i = j

\* structural well-formedness of a tree: unique child names and attribute names everywhere
RECURSIVE WF(_)
WF(e) ==
  /\ NoDup(ChildNames(e))
  /\ NoDup(AttrNames(e))
  /\ e.cnt >= 1
  /\ \A i \in 1..Len(e.ch) : WF(e.ch[i].e)

\* children ordered by position (the order the renderer uses when not sorting)
ByPos(e) == SortSeq(e.ch, LAMBDA x, y : x.e.pos < y.e.pos)

\* in a parsed tree the positions of the n children are exactly 0..n-1
RECURSIVE PosWF(_)
PosWF(e) ==
  /\ {e.ch[i].e.pos : i \in 1..Len(e.ch)} = 0..(Len(e.ch) - 1)
  /\ \A i \in 1..Len(e.ch) : PosWF(e.ch[i].e)

RECURSIVE Size(_)
Size(e) == 1 + (IF e.ch = <<>> THEN 0 ELSE LET s[i \in 0..Len(e.ch)] == IF i = 0 THEN 0 ELSE s[i - 1] + Size(e.ch[i].e) IN s[Len(e.ch)])
=============================================================================
