---------------------------- MODULE ProgramTrace ----------------------------
(***************************************************************************)
(* C02 / C13: the generated programs judged.  Each line describes one      *)
(* generated program (the struct definitions rendered for a sequence of    *)
(* documents) after rustc compiled it and it ran against its own source    *)
(* documents:                                                              *)
(*  {"ev":"Program","preset":"quick_xml"|"serde_xml_rs","tree":T,"opts":O,*)
(*   "docs":[{"events":[..]}],"compiled":b,                                *)
(*   "runs":[{"doc":i,"a":b,"b":b,"c":b,"missing_attr":n,"missing_text":n}]}*)
(* a = rendered source unchanged, b = with deny_unknown_fields, c = with   *)
(* Debug derived (its value is searched for every attribute value and text *)
(* content of the document).  The specification decides whether the        *)
(* documents are in the domain of the property (DomC02 / DomC13, from a    *)
(* DOM rebuilt from the independent reader's events), which clauses fail,  *)
(* and whether the as-coded renderer model explains a failure.             *)
(***************************************************************************)
EXTENDS Deser, Json, IOUtils

Rec == ndJsonDeserialize(IOEnv.TRACE)
VARIABLE l
Init == l = 1

\* ---- DOM with a data / whitespace distinction on character data
OpenNode(n, a) == [name |-> n, attrs |-> a, items |-> <<>>]
TextD(data) == [kind |-> "text", data |-> data]
CloseTop(st) ==
  LET t == st[Len(st)]
      p == st[Len(st) - 1]
  IN Append(SubSeq(st, 1, Len(st) - 2), [p EXCEPT !.items = Append(@, El(t.name, t.attrs, t.items, "pair"))])
AddItem(st, it) == [st EXCEPT ![Len(st)].items = Append(@, it)]
RECURSIVE Fold(_, _, _)
Fold(evs, i, st) ==
  IF i > Len(evs) THEN st
  ELSE LET e == evs[i]
       IN CASE e.kind = "Start" -> Fold(evs, i + 1, Append(st, OpenNode(e.name, e.attrs)))
            [] e.kind = "Empty" -> Fold(evs, i + 1, AddItem(st, El(e.name, e.attrs, <<>>, "empty")))
            [] e.kind \in {"Text", "CData"} -> Fold(evs, i + 1, AddItem(st, TextD(~e.ws)))
            [] e.kind = "PI" -> Fold(evs, i + 1, AddItem(st, [kind |-> "pi"]))
            [] e.kind \in {"End", "Eof"} -> Fold(evs, i + 1, IF Len(st) > 1 THEN CloseTop(st) ELSE st)
            [] OTHER -> Fold(evs, i + 1, st)
DocRoots(evs) == Elems(Fold(evs, 1, <<OpenNode(<<>>, <<>>)>>)[1].items)

\* (the domain predicates PosC02 / PosC13 live in Deser.tla: the model-checking instance MC_Deser shares them)

Roots(e) == [i \in 1..Len(e.docs) |-> DocRoots(e.docs[i].events)]
\* an XML declaration or a DOCTYPE is only allowed in the prolog (the reader reports them anywhere)
PrologOk(evs) ==
  \A j \in 1..Len(evs) : evs[j].kind \in {"Decl", "DocType"} => \A k \in 1..(j - 1) : evs[k].kind \notin {"Start", "Empty"}
WellFormed(e) ==
  /\ \A i \in 1..Len(e.docs) : PrologOk(e.docs[i].events)
  /\ \A i \in 1..Len(e.docs) : Len(Roots(e)[i]) = 1 /\ \A j \in 1..Len(e.docs[i].events) : e.docs[i].events[j].fault = "none"
  /\ \A i \in 1..Len(e.docs) : Len(Roots(e)[i]) = 1 => Roots(e)[i][1].name = Roots(e)[1][1].name
RootOccs(e) == [i \in 1..Len(e.docs) |-> Roots(e)[i][1]]
InDomain(e) ==
  WellFormed(e) /\ LetterBeforeDigit(RootOccs(e)[1].name) /\ NameCharsOk(RootOccs(e)[1].name)
  /\ IF e.preset = "quick_xml" THEN PosC02(RootOccs(e))
     ELSE PosC13(RootOccs(e)) /\ ~HasColon(RootOccs(e)[1].name)

\* ---- what failed
Tags(e) ==
  (IF ~e.compiled THEN {"COMPILE"} ELSE {})
  \cup (IF \E i \in 1..Len(e.runs) : ~e.runs[i].a \/ ~e.runs[i].c THEN {"DESER"} ELSE {})
  \cup (IF e.preset = "quick_xml" /\ \E i \in 1..Len(e.runs) : e.runs[i].a /\ ~e.runs[i].b THEN {"DESER_DENY_UNKNOWN"} ELSE {})
  \cup (IF \E i \in 1..Len(e.runs) : e.runs[i].missing_attr > 0 THEN {"DROPPED_ATTR"} ELSE {})
  \cup (IF \E i \in 1..Len(e.runs) : e.runs[i].missing_text > 0 THEN {"DROPPED_TEXT"} ELSE {})

\* ---- what the as-coded model says about this program
\* some struct has a text field (an element with character data that is not typed String)
RECURSIVE HasTextField(_)
HasTextField(t) == (t.text /\ ~ContainsOnlyText(t)) \/ \E i \in 1..Len(t.ch) : ~ContainsOnlyText(t.ch[i].e) /\ HasTextField(t.ch[i].e)
RootHasTextField(t) == t.text \/ HasTextField(t)

Judge(e) ==
  LET tags == Tags(e)
      dom == InDomain(e)
  IN IF tags = {} THEN TRUE
     ELSE PrintT("INFO " \o ToJson([line |-> l, id |-> e.id, tags |-> tags, indomain |-> dom,
                                    modeltags |-> C04Tags(ModelStructs(e.tree, e.opts)),
                                    textfield |-> RootHasTextField(e.tree)]))

\* the contract model's prediction for every document, compared with what rustc + the real deserializer did
Predicted(e, d) == DeserDoc(ModelStructs(e.tree, e.opts), RootOccs(e)[d], e.preset)
Disagrees(e, r) ==
  LET p == Predicted(e, r.doc)
  IN \/ p.ok # r.a
     \/ (e.preset = "quick_xml" /\ p.okdeny # r.b)
     \* (attribute values are counted one by one; character data per element in the model, per text node in the harness)
     \/ (p.ok /\ r.a /\ r.c /\ (p.missA # r.missing_attr \/ (p.missT = 0) # (r.missing_text = 0)))
Compare(e) ==
  IF e.compiled /\ InDomain(e) /\ C04Tags(ModelStructs(e.tree, e.opts)) = {}
  THEN LET bad == {i \in 1..Len(e.runs) : Disagrees(e, e.runs[i])}
       IN PrintT("INFO " \o ToJson([line |-> l, id |-> e.id, tags |-> {}, indomain |-> TRUE, compared |-> Len(e.runs),
                                     disagreements |-> Cardinality(bad),
                                     first |-> IF bad = {} THEN [none |-> TRUE]
                                               ELSE LET i == CHOOSE x \in bad : TRUE IN [doc |-> e.runs[i].doc, predicted |-> Predicted(e, e.runs[i].doc)]]))
  ELSE TRUE

\* every domain member is also counted, so that the evidence can say how many programs were inside the domain
Count(e) == IF InDomain(e) THEN PrintT("INFO " \o ToJson([line |-> l, id |-> e.id, tags |-> {}, indomain |-> TRUE, count |-> TRUE])) ELSE TRUE

Next == l <= Len(Rec) /\ Rec[l].ev = "Program" /\ Judge(Rec[l]) /\ Count(Rec[l]) /\ Compare(Rec[l]) /\ l' = l + 1
Spec == Init /\ [][Next]_l

Accepted ==
  LET matched == TLCGet("stats").diameter - 1
  IN IF matched = Len(Rec) THEN TRUE
     ELSE PrintT("TRACE-REJECTED " \o ToJson([line |-> matched + 1])) /\ FALSE
=============================================================================
