------------------------------ MODULE CliTrace ------------------------------
(***************************************************************************)
(* Trace validation of the real binary (impl -> spec): the system calls    *)
(* strace observed, mapped one-to-one to observable steps of Cli:          *)
(*   Begin{input,out,parser,derive,sort}  one run starts                   *)
(*   OpenInput{ok}   openat of the input path                              *)
(*   CreateOut{ok}   openat(.., O_WRONLY|O_CREAT|O_TRUNC) of the output    *)
(*   WriteFile       write to the output file descriptor                   *)
(*   Print           write to fd 1        Diag  write to fd 2              *)
(*   Exit{code}      exit_group                                            *)
(* Parsing and rendering are not system calls: the trace actions compose   *)
(* these silent steps of the specification with the observable one, so an  *)
(* output file opened before the input was parsed is not a behaviour.      *)
(***************************************************************************)
EXTENDS Cli, Json, IOUtils

Rec == ndJsonDeserialize(IOEnv.TRACE)
VARIABLES l, s
tvars == <<l, s>>

Idle == [pc |-> "idle"]
Init == l = 1 /\ s = Idle

E == Rec[l]
Begin == E.ev = "Begin" /\ s' = Start(E.input, E.out, E.parser, E.derive, E.sort)

\* openat(input): fails exactly for a missing path; what was read is decided by the next steps
OpenInput == E.ev = "OpenInput" /\ s.pc = "start" /\ E.ok = (s.input # "missing") /\ s' = Read(s)

\* silent steps up to the point where output is produced
Rendered(x) == RenderStep(Parse(x))

CreateOut ==
  /\ E.ev = "CreateOut" /\ s.pc = "read" /\ Parses(s) /\ s.out # "stdout"      \* only after a successful parse
  /\ E.ok = Creatable(s)
  /\ s' = Create(Rendered(s))
WriteFile == E.ev = "WriteFile" /\ s.pc \in {"created", "finished"} /\ s.file \in {"truncated", "header+rendering"} /\ s' = (IF s.pc = "created" THEN Write(s) ELSE s)
PrintOut ==
  /\ E.ev = "Print" /\ Parses(s) /\ s.out = "stdout"
  /\ \/ s.pc = "read" /\ s' = PrintStdout(Rendered(s))
     \/ s.pc = "finished" /\ s.stdout # "empty" /\ s' = s                            \* println! may take several writes
DiagOut ==
  /\ E.ev = "Diag"
  /\ \/ s.pc = "failing" /\ s' = Diag(s)
     \/ s.pc = "read" /\ ~Parses(s) /\ s' = Diag(Parse(s))
     \/ s.pc = "diagnosed" /\ s' = s                                                 \* several writes to stderr
ExitRun == E.ev = "Exit" /\ s.pc \in {"finished", "diagnosed"} /\ Exit(s).exit = E.code /\ s' = Exit(s)

Next == l <= Len(Rec) /\ l' = l + 1 /\ (Begin \/ OpenInput \/ CreateOut \/ WriteFile \/ PrintOut \/ DiagOut \/ ExitRun)
Spec == Init /\ [][Next]_tvars

Inv == s.pc = "idle" \/ (C12(s) /\ InputFaultLeavesOutput(s) /\ StdoutDiscipline(s))

Accepted ==
  LET matched == TLCGet("stats").diameter - 1
  IN IF matched = Len(Rec) THEN TRUE
     ELSE PrintT("TRACE-REJECTED " \o ToJson([line |-> matched + 1, event |-> Rec[matched + 1]])) /\ FALSE
=============================================================================
