-------------------------------- MODULE Cli --------------------------------
(***************************************************************************)
(* src/main.rs + src/args.rs: one run of the binary as a state machine.    *)
(* The run is a record s; each step of main.rs::run is an operator on it,  *)
(* in the order the code performs them, so that the trace specification    *)
(* can compose the silent steps (parse, render) with the observable ones   *)
(* (system calls).                                                         *)
(*                                                                         *)
(* input : "valid" | "malformed" | "noelement" | "nonutf8" | "missing" |   *)
(*         "directory"                                                     *)
(* out   : "stdout" | "newfile" | "existing" | "nodir" | "isdir"           *)
(* parser: "quick-xml-de" | "serde-xml-rs";  sort: "unsorted" | "name"     *)
(* derive: any string (sequence of characters)                             *)
(* each of the three may also be "ABSENT" (derive: <<"ABSENT">>): the     *)
(* option is not given and the                                             *)
(* default of args.rs applies (quick-xml-de / "Serialize, Deserialize" /   *)
(* unsorted)                                                               *)
(***************************************************************************)
EXTENDS Render

InputKinds == {"valid", "malformed", "noelement", "nonutf8", "missing", "directory"}
OutKinds == {"stdout", "newfile", "existing", "nodir", "isdir"}

\* args.rs: From<ParserArg> for Options, then .derive(..) and .sort = ..
AbsentDerive == <<"ABSENT">>      \* (not a string in the sense of Strings.tla: its one item has six characters)
DefaultDerive == <<"S","e","r","i","a","l","i","z","e",","," ","D","e","s","e","r","i","a","l","i","z","e">>
OptsOf(parser, derive, sort) ==
  [(IF parser \in {"quick-xml-de", "ABSENT"} THEN QuickXmlDe ELSE SerdeXmlRs)
     EXCEPT !.derive = IF derive = AbsentDerive THEN DefaultDerive ELSE derive,
            !.sort = IF sort = "name" THEN "XmlName" ELSE "Unsorted"]

Start(input, out, parser, derive, sort) ==
  [pc |-> "start", input |-> input, out |-> out, opts |-> OptsOf(parser, derive, sort),
   args |-> [parser |-> parser, derive |-> derive, sort |-> sort],
   stdout |-> "empty",            \* "empty" | "header+rendering+newline"
   stderr |-> FALSE,              \* something was written to stderr
   file |-> (CASE out = "existing" -> "old" [] out = "isdir" -> "dir" [] OTHER -> "absent"),
                                  \* "absent" | "old" | "truncated" | "header+rendering" | "dir"
   exit |-> -1]

Readable(s) == s.input \in {"valid", "malformed", "noelement"}     \* fs::read_to_string succeeds
Parses(s) == s.input = "valid"                                     \* into_struct succeeds
Creatable(s) == s.out \in {"newfile", "existing"}                  \* File::create succeeds
InputAtFault(s) == ~Parses(s)
OutputAtFault(s) == s.out \in {"nodir", "isdir"}

\* main.rs:35  fs::read_to_string
Read(s) == IF Readable(s) THEN [s EXCEPT !.pc = "read"] ELSE [s EXCEPT !.pc = "failing"]
\* main.rs:36-38  into_struct
Parse(s) == IF Parses(s) THEN [s EXCEPT !.pc = "parsed"] ELSE [s EXCEPT !.pc = "failing"]
\* main.rs:40-45  options, header + to_serde_struct
RenderStep(s) == [s EXCEPT !.pc = "rendered"]
\* main.rs:47-49  File::create (truncates an existing file)
Create(s) == IF Creatable(s) THEN [s EXCEPT !.pc = "created", !.file = "truncated"] ELSE [s EXCEPT !.pc = "failing"]
\* main.rs:50  write!
Write(s) == [s EXCEPT !.pc = "finished", !.file = "header+rendering"]
\* main.rs:54  println!
PrintStdout(s) == [s EXCEPT !.pc = "finished", !.stdout = "header+rendering+newline"]
\* main.rs:24-28  eprintln! + process::exit(1)
Diag(s) == [s EXCEPT !.pc = "diagnosed", !.stderr = TRUE]
Exit(s) == [s EXCEPT !.pc = "done", !.exit = IF s.pc = "diagnosed" THEN 1 ELSE 0]

\* one step of the program, in program order
Step(s) ==
  CASE s.pc = "start" -> Read(s)
    [] s.pc = "read" -> Parse(s)
    [] s.pc = "parsed" -> RenderStep(s)
    [] s.pc = "rendered" -> IF s.out = "stdout" THEN PrintStdout(s) ELSE Create(s)
    [] s.pc = "created" -> Write(s)
    [] s.pc = "failing" -> Diag(s)
    [] s.pc \in {"finished", "diagnosed"} -> Exit(s)
    [] OTHER -> s

-----------------------------------------------------------------------------
(* C12                                                                     *)

InitialFile(s) == CASE s.out = "existing" -> "old" [] s.out = "isdir" -> "dir" [] OTHER -> "absent"

\* in every state: a run whose input is at fault never touches the named output
InputFaultLeavesOutput(s) == InputAtFault(s) => s.file = InitialFile(s)
\* nothing is ever printed on stdout when an output file is named or a fault occurs
StdoutDiscipline(s) == (s.out # "stdout" \/ InputAtFault(s)) => s.stdout = "empty"

Terminal(s) == s.pc = "done"
C12(s) ==
  Terminal(s) =>
     IF InputAtFault(s) \/ OutputAtFault(s)
     THEN /\ s.exit = 1 /\ s.stderr /\ s.stdout = "empty"
          /\ InputAtFault(s) => s.file = InitialFile(s)
     ELSE /\ s.exit = 0
          /\ IF s.out = "stdout" THEN s.stdout = "header+rendering+newline" /\ s.file = "absent"
             ELSE s.stdout = "empty" /\ s.file = "header+rendering"
=============================================================================
