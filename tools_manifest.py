#!/usr/bin/env python3
"""Regenerates MANIFEST.json from the table below (keeps it valid while checks are added)."""
import json

PROPS = [json.loads(l)["id"] for l in open("/verif/properties.jsonl")]

COMMON_NOTE = ("Trusted: TLC 1.8, the harness (xml serializer self-checked by an independent reader pass on every case), "
               "the verif_view hook. Exhaustive only within the instance bounds recorded in the evidence; beyond them seeded random "
               "sessions are validated against the specification.")

CHECKS = {
 "C01": ("model_checking", "Parser.tla + Schema.tla: TLC checks Sound (the inferred schema Admits every consumed document) on every event history of the children / attrs / text / docs3 / mixed instances, and RenderedSound on the composition parser -> renderer (MC_Pipeline: the rendered structs describe every document); every history is replayed through the real parser and the real schema must admit the documents; random larger sessions (incl. a scale family: many distinct children, many occurrences, deep nesting) are validated by SchemaTrace (mode C01) and their renderings judged by RenderTrace (fields bound to the XML names with the wrappers of the tree's flags).", "TLA+ Parser/Schema spec, TLC exhaustive histories, spec->impl replay, SchemaTrace validation", "§5 C01"),
 "C03": ("model_checking", "TLC checks Exact (Proj(tree) = Schema!TyOf(documents)) and the mechanism invariant StackWF on every event history of the children/attrs/text/mixed instances; each history is replayed through the real parser and its schema compared with the schema the documents determine (cross-checked by an independent Rust DOM inference); random sessions incl. the scale family are validated by SchemaTrace (mode C03), their renderings judged by RenderTrace, and the steps recorded by the parser hooks (incl. the repository's own test documents) are validated step by step by ParserTrace with all invariants on.", "TLA+ Parser/Schema spec, TLC exhaustive histories, spec->impl replay, SchemaTrace validation", "§5 C03"),
 "C06": ("model_checking", "TLC checks Exact, Monotone, NoOpOnEmptyDoc and AlgebraInv (order/duplication independence of the reference) on 2-3 document histories and Verdict on histories whose fault lies in an extend; the real code is run on every history, on all permutations, doubled documents and interleaved element-less documents (harness c06-algebra); random sessions validated by SchemaTrace (mode C06); hook traces by ParserTrace.", "TLA+ spec + TLC, replay, run-relation checks (permutation/duplication/empty), SchemaTrace", "§5 C06"),
 "C08": ("model_checking", "TLC checks Verdict/Total on histories with one injected fault of each kind at every point; each is realised as bytes and the real verdict/error kind compared; random damaged documents: verdict, kind, byte position and Debug text predicted from an independent reader pass are validated by SchemaTrace (mode C08).", "TLA+ error actions + TLC fault injection, replay, independent observer pass, SchemaTrace", "§5 C08"),
 "C09": ("model_checking", "Schema!TyOf is ordered by first appearance; TLC checks Exact on the attrs instance (every ordered attribute list per occurrence) and children instance; replay compares the stored attribute order and child positions of the real tree; SchemaTrace (mode C09) on random sessions.", "TLA+ spec + TLC, replay, SchemaTrace", "§5 C09"),
 "C11": ("model_checking", "TLC checks FormInsensitive (state-level equality of <x/> vs <x></x>, Text vs CDATA) in every reading state; the harness applies every listed rewrite to the TLC-enumerated histories on the real code and requires byte-identical rendering under both presets and sort orders.", "TLA+ spec + TLC, metamorphic rewrites of TLC-enumerated histories on the real code", "§5 C11"),
 "C15": ("model_checking", "Necessity.tla transcribes merge_necessity; TLC checks the three C15 predicates on every pair of duplicate-free tagged lists within the bound (exhaustive), every enumerated pair is replayed through the real function, and seeded random pairs beyond the bound are validated against the specification by MergeTrace.", "TLA+ spec + TLC exhaustive enumeration, spec->impl replay, impl->spec trace validation", "§5 C15"),
}
CHECKS.update({
 "C04": ("model_checking", "Render.tla / Strings.tla / Chars.tla transcribe the renderer, identifier map and convert_string; trees are enumerated by TLC as public-operation sequences over adversarial name pools; the as-coded model is judged at design level and every tree is built through the real API, rendered, parsed by a strict template parser and judged by RenderProps!C04Tags in RenderTrace (which also reports any deviation from the model). Known defects of the pinned renderer are listed in known_findings.json.", "TLA+ renderer spec + TLC tree enumeration, spec->impl replay, RenderTrace judging of real output", "§5 C04"),
 "C05": ("model_checking", "TLC checks Deterministic (no choice left once the event is fixed) on the histories of the names/children/attrs instances; every history, 600 random sessions over colliding names and TLC-enumerated trees over pools in which identifier / struct-name disambiguation has work to do are parsed and rendered repeatedly on the real code in one thread, several threads and fresh processes; all outputs must be byte-identical.", "TLA+ spec + TLC (input generation, determinism invariant), repetition oracle on the real code", "§5 C05"),
 "C10": ("model_checking", "Each TLC-enumerated / random tree is rendered by the real code under both presets, both sort orders and random derive/prefix/text-identifier strings; RenderTrace judges derive lines, rename rules, bindings and that equal sort options give equal skeletons (RenderProps!OptionTags, ReflectTags, Skeleton).", "TLA+ renderer spec + TLC, RenderTrace judging across option tuples", "§5 C10"),
 "C14": ("model_checking", "Trees in which one name recurs under different parents / depths / itself are enumerated by TLC; RenderProps!NameTags judges every real struct name (own PascalCase name, ancestor qualification only, unqualified when unique, first struct = root) and the as-coded model at design level.", "TLA+ renderer spec + TLC, RenderTrace judging", "§5 C14"),
 "C16": ("model_checking", "ElementApi.tla: every sequence of public operations within the bound is a behaviour; TLC checks Unique and EffectOK after every operation; each sequence is executed on a real Element and ApiTrace accepts a step only if names stay unique and the operation had exactly the demanded effect; final trees are rendered and judged by RenderTrace; random sequences up to 60 operations beyond the bound.", "TLA+ API state machine + TLC, spec->impl replay, ApiTrace / RenderTrace validation", "§5 C16"),
})
CHECKS.update({
 "C07": ("exploration", "Mass execution with a monitor: seeds are the byte serialisations of the TLC-enumerated fault histories (MC_Parser instance errors; invariant Total and the temporal property EveryCallReturns under fairness show the design has a successor for every event and every call returns), the repository's test documents, boundary names (multi-byte characters at every byte offset, degenerate names), state-machine shapes (several roots, stray ends, BOM) and a scale family (70 000 repeats, 400 attributes, depth 200); byte-level mutations, truncation at every offset, invalid UTF-8, raw bytes; random reader configurations and chunked / small-capacity BufRead; every Ok result rendered with random options; the crate is built with debug assertions and overflow checks; catch_unwind per case, a 20 s per-case watchdog and exit status per batch; hook traces of hostile runs are validated by ParserTrace (a Panic line has no action).", "TLC-derived seed corpus + mutation-based execution under a panic/abort/hang monitor", "§5 C07"),
 "C12": ("model_checking", "Cli.tla steps one run of the binary in program order; MC_Cli enumerates all input kinds x output kinds x option values (exhaustive) and checks the sentences of C12 in every state; each behaviour is executed with the real binary under strace, observables compared with the prediction (expected bytes = header + library rendering for the options the specification derives) and the system-call sequence validated by CliTrace (output is never opened before the input parsed).", "TLA+ CLI state machine + TLC (exhaustive), replay against the real binary, strace trace validation", "§5 C12"),
})
CHECKS.update({
 "C02": ("translation_validation", "Every generated program is itself the object checked: document sequences (TLC-enumerated histories of MC_Parser and seeded random data-oriented sequences) are parsed by the real code, rendered with the quick-xml preset, written unchanged into a crate (plus a deny_unknown_fields copy and a Debug copy), compiled by rustc and run against each source document; ProgramTrace.tla decides domain membership (DomC02 on a DOM from an independent reader pass), which clause failed and whether the as-coded renderer model explains a compile failure.", "TLC-enumerated + random document sequences, generated programs compiled and executed, judged by a TLA+ trace spec", "§5 C02"),
 "C13": ("translation_validation", "As C02 with the serde-xml-rs preset, serde_xml_rs::from_str and the domain DomC13; the known defect of the preset ($text vs $value) is recognised through the model (text field present) and listed in known_findings.json.", "TLC-enumerated + random document sequences, generated programs compiled and executed, judged by a TLA+ trace spec", "§5 C13"),
})
NOTES = {"C02": "Trusted: rustc, serde_derive, quick-xml 0.37.5 (feature overlapped-lists) as cached; only failures of the real compiler / deserializer are reported.",
         "C13": "Trusted: rustc, serde_derive, serde-xml-rs 0.6.0 as cached; only failures of the real compiler / deserializer are reported.",
         "C07": "Trusted: catch_unwind + process exit status + wall-clock limit as the monitor; nothing is proved about memory safety or termination of the real code.",
         "C12": "Trusted: strace, the file-system setup of each fault; permission faults are not exercised (root); clap usage errors out of scope.",
         "C15": "Trusted: TLC, the harness instantiation merge_necessity::<i64>; exhaustive only up to alphabet/length bound (quick 3/3, thorough 4/4), sampled beyond."}

def main():
    checks = []
    for pid in PROPS:
        if pid not in CHECKS:
            continue
        cat, text, tech, ref = CHECKS[pid]
        checks.append({"property_id": pid, "quick_cmd": "./check %s --tier quick" % pid,
                       "thorough_cmd": "./check %s --tier thorough" % pid,
                       "evidence_file": "/verif/evidence/%s.json" % pid,
                       "replay_cmd_template": "./check %s --replay {path}" % pid,
                       "engine": "tla-model-conformance",
                       "level_claimed": {"category": cat, "text": text, "design_ref": "DESIGN.md " + ref},
                       "level_note": NOTES.get(pid, COMMON_NOTE), "technique": tech})
    claimed = sorted(CHECKS)
    m = {"version": 1,
         "setup_cmd": "cd /verif/harness && cargo build --release --offline && cargo build --release --offline --manifest-path /repo/Cargo.toml --bin xml_schema_generator --target-dir /verif/harness/target/cli && cd /verif/harness/genprog && mkdir -p src && (test -f src/main.rs || echo 'fn main(){}' > src/main.rs) && cargo build --offline && cd /verif/spec && for f in *.tla; do tla-sany $f >/dev/null || exit 1; done",
         "hooks": {"guard": "cargo feature xsg_verif",
                   "enable": "the harness depends on /repo by path with features = [\"xsg_verif\"] (harness/Cargo.toml); cargo build --release --offline in /verif/harness",
                   "baseline_off_cmd": "cd /repo && cargo test --workspace --no-fail-fast --offline",
                   "source_commits": ["665f719"], "add_only": True},
         "engines": [{"name": "tla-model-conformance", "path": "/verif/check", "serves_properties": claimed,
                      "kind_free_text": "explicit TLA+ specification under /verif/spec model-checked with TLC; bound to the code by spec->impl replay of TLC-enumerated behaviours and impl->spec trace validation (harness under /verif/harness)"}],
         "checks": checks,
         "not_applicable": [{"property_id": p, "reason": "check under construction in this session (see DESIGN.md §5); not claimed yet"} for p in PROPS if p not in CHECKS],
         "notes": "See DESIGN.md. known_findings.json lists recorded findings and fixed defects."}
    json.dump(m, open("/verif/MANIFEST.json", "w"), indent=1)

main()
